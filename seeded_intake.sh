#!/usr/bin/env bash
# seeded_intake.sh <worktree> <seed-id> <crate>   : confirm a sub-agent's seeded change in its own worktree
# (demo fails with the change, passes without, crate lib tests pass with it) and copy it to /verif/seeded/<seed-id>/
set -u
wt=$1; id=$2; crate=$3
export CARGO_NET_OFFLINE=true CARGO_TARGET_DIR=$wt/target
dst=/verif/seeded/$id; mkdir -p $dst
cp $wt/SEEDED/patch.diff $wt/SEEDED/demo.rs $dst/ 2>/dev/null; cp $wt/SEEDED/README.md $dst/AGENT_README.md 2>/dev/null
cd $wt
git diff --quiet -- crates && git apply SEEDED/patch.diff
( cargo test -p $crate --offline --test seeded_demo 2>&1 | grep -E "^test result|panicked" | head -5 ) > $dst/confirm_demo_with_change.txt; 
with=$(grep -c "FAILED\|failed; " $dst/confirm_demo_with_change.txt)
( cargo test -p $crate --offline --lib 2>&1 | grep -E "^test result" ) > $dst/confirm_lib_tests_with_change.txt
git apply -R SEEDED/patch.diff
( cargo test -p $crate --offline --test seeded_demo 2>&1 | grep -E "^test result" ) > $dst/confirm_demo_without_change.txt
git apply SEEDED/patch.diff
echo "== $id"; echo "demo with change:"; cat $dst/confirm_demo_with_change.txt; echo "lib tests with change:"; cat $dst/confirm_lib_tests_with_change.txt; echo "demo without change:"; cat $dst/confirm_demo_without_change.txt
