//! schedsim — a deterministic scheduler for real OS threads.
//!
//! Simulated threads are real threads that are parked and released one at a
//! time: a thread parks before every acquisition of the hooked `Mutex`
//! (`chia_bls::verif_hooks`), between the operations of its script, at start
//! and at the end. Only the scheduler decides who runs next, either from a
//! seeded PRNG (uniform or PCT-style priorities) or from a recorded schedule.
//! Nothing about the interleaving is left to the OS.

use crate::rng::Rng;
use chia_bls::verif_hooks::{set_sched_hook, Event};
use serde::{Deserialize, Serialize};
use std::cell::RefCell;
use std::panic::{catch_unwind, AssertUnwindSafe};
use std::sync::{Arc, Condvar, Mutex, Once};

#[derive(Clone, Copy, Debug, PartialEq, Eq)]
pub enum Site {
    Start,
    Acquire,
    Contended,
    BetweenOps,
}

#[derive(Clone, Debug, PartialEq)]
enum Status {
    NotStarted,
    Running,
    Parked(Site),
    Finished,
}

#[derive(Serialize, Deserialize, Clone, Debug, PartialEq)]
pub enum Strategy {
    /// uniform choice among runnable threads
    Random { seed: u64 },
    /// PCT-style: random priorities, `changes` priority-change points within `horizon` steps
    Pct { seed: u64, changes: u8, horizon: u32 },
    /// replay exactly these decisions (thread ids); when a decision names a
    /// thread that cannot run, or the list is exhausted, the lowest runnable id runs
    Explicit { decisions: Vec<u8> },
}

struct Abort;

struct SimState {
    status: Vec<Status>,
    current: Option<usize>,
    holding: Vec<u32>,
    /// lock acquisitions inside the current operation, per thread
    acq_in_op: Vec<u32>,
    acquisitions: Vec<u64>,
    /// a release happened since this thread parked as Contended
    release_since_contended: Vec<bool>,
    contended_events: u64,
    abort: bool,
}

struct Shared {
    m: Mutex<SimState>,
    cv: Condvar,
}

thread_local! {
    static CTX: RefCell<Option<(Arc<Shared>, usize)>> = const { RefCell::new(None) };
}

static INSTALL: Once = Once::new();

pub fn install_hook() {
    INSTALL.call_once(|| {
        set_sched_hook(hook);
    });
}

fn hook(ev: Event) -> bool {
    let ctx = CTX.with(|c| c.borrow().clone());
    let Some((shared, me)) = ctx else {
        return false;
    };
    match ev {
        Event::Acquire => {
            park(&shared, me, Site::Acquire);
        }
        Event::Contended => {
            {
                let mut st = shared.m.lock().unwrap();
                st.contended_events += 1;
                st.release_since_contended[me] = false;
            }
            park(&shared, me, Site::Contended);
        }
        Event::Acquired => {
            let mut st = shared.m.lock().unwrap();
            st.holding[me] += 1;
            st.acq_in_op[me] += 1;
            st.acquisitions[me] += 1;
        }
        Event::Released => {
            let mut st = shared.m.lock().unwrap();
            st.holding[me] = st.holding[me].saturating_sub(1);
            for f in st.release_since_contended.iter_mut() {
                *f = true;
            }
        }
    }
    true
}

fn park(shared: &Arc<Shared>, me: usize, site: Site) {
    let mut st = shared.m.lock().unwrap();
    st.status[me] = Status::Parked(site);
    if site == Site::BetweenOps || site == Site::Start {
        st.acq_in_op[me] = 0;
    }
    st.current = None;
    shared.cv.notify_all();
    loop {
        if st.abort {
            drop(st);
            std::panic::panic_any(Abort);
        }
        if st.current == Some(me) {
            break;
        }
        st = shared.cv.wait(st).unwrap();
    }
    st.status[me] = Status::Running;
}

/// Scheduling point between two operations of a simulated thread's script.
pub fn yield_between_ops() {
    let ctx = CTX.with(|c| c.borrow().clone());
    if let Some((shared, me)) = ctx {
        park(&shared, me, Site::BetweenOps);
    }
}

#[derive(Default, Clone, Debug)]
pub struct SchedStats {
    pub decisions: u64,
    pub context_switches: u64,
    /// switches away from a thread that was in the middle of an operation
    /// (had already taken the lock at least once in it and wants it again)
    pub midop_preemptions: u64,
    pub contended_events: u64,
    pub threads_with_acquisitions: u32,
    pub acquisitions: u64,
    pub invariant_checks: u64,
}

pub enum Outcome<R> {
    Done(Vec<Result<R, String>>),
    /// no thread can run although some have not finished
    Deadlock(String),
    /// step budget exhausted
    Stall(String),
    /// the per-step invariant failed
    Invariant { step: usize, what: String },
}

pub struct SimResult<R> {
    pub outcome: Outcome<R>,
    pub decisions: Vec<u8>,
    pub stats: SchedStats,
}

/// Runs `bodies` as simulated threads under `strategy`. `invariant` is called by
/// the scheduler before every decision at which no simulated thread holds the
/// lock (so shared state may be inspected from the scheduler thread).
pub fn run<R: Send + 'static>(
    bodies: Vec<Box<dyn FnOnce() -> R + Send + 'static>>,
    strategy: &Strategy,
    step_budget: usize,
    mut invariant: impl FnMut() -> Option<String>,
) -> SimResult<R> {
    install_hook();
    let n = bodies.len();
    let shared = Arc::new(Shared {
        m: Mutex::new(SimState {
            status: vec![Status::NotStarted; n],
            current: None,
            holding: vec![0; n],
            acq_in_op: vec![0; n],
            acquisitions: vec![0; n],
            release_since_contended: vec![true; n],
            contended_events: 0,
            abort: false,
        }),
        cv: Condvar::new(),
    });
    let mut handles = vec![];
    for (i, body) in bodies.into_iter().enumerate() {
        let sh = shared.clone();
        handles.push(std::thread::spawn(move || -> Result<R, String> {
            CTX.with(|c| *c.borrow_mut() = Some((sh.clone(), i)));
            let r = catch_unwind(AssertUnwindSafe(|| {
                park(&sh, i, Site::Start);
                body()
            }));
            CTX.with(|c| *c.borrow_mut() = None);
            let mut st = sh.m.lock().unwrap();
            st.status[i] = Status::Finished;
            st.holding[i] = 0;
            for f in st.release_since_contended.iter_mut() {
                *f = true;
            }
            st.current = None;
            sh.cv.notify_all();
            drop(st);
            match r {
                Ok(v) => Ok(v),
                Err(e) => {
                    if e.downcast_ref::<Abort>().is_some() {
                        Err("aborted".into())
                    } else if let Some(s) = e.downcast_ref::<String>() {
                        Err(format!("panic: {s}"))
                    } else if let Some(s) = e.downcast_ref::<&str>() {
                        Err(format!("panic: {s}"))
                    } else {
                        Err("panic".into())
                    }
                }
            }
        }));
    }

    // strategy state
    let mut rng = match strategy {
        Strategy::Random { seed } | Strategy::Pct { seed, .. } => Rng::new(*seed),
        Strategy::Explicit { .. } => Rng::new(0),
    };
    let mut prio: Vec<u32> = (0..n as u32).map(|i| i + 1000).collect();
    let mut change_points: Vec<usize> = vec![];
    if let Strategy::Pct { changes, horizon, .. } = strategy {
        // random permutation of priorities
        for i in (1..n).rev() {
            let j = rng.usize_below(i + 1);
            prio.swap(i, j);
        }
        for _ in 0..*changes {
            change_points.push(rng.usize_below((*horizon).max(1) as usize));
        }
    }
    let mut low_water = 999u32;

    let mut decisions: Vec<u8> = vec![];
    let mut stats = SchedStats::default();
    let mut last: Option<usize> = None;
    let mut outcome: Option<Outcome<R>> = None;

    loop {
        // wait until nobody is running
        let (runnable, all_finished, any_holding, parked_sites) = {
            let mut st = shared.m.lock().unwrap();
            loop {
                let busy = st.current.is_some()
                    || st.status.iter().any(|s| matches!(s, Status::NotStarted | Status::Running));
                if !busy {
                    break;
                }
                st = shared.cv.wait(st).unwrap();
            }
            let all_finished = st.status.iter().all(|s| *s == Status::Finished);
            let mut runnable = vec![];
            let mut sites = vec![];
            for i in 0..n {
                if let Status::Parked(site) = st.status[i] {
                    sites.push((i, site));
                    if site != Site::Contended || st.release_since_contended[i] {
                        runnable.push(i);
                    }
                }
            }
            (runnable, all_finished, st.holding.iter().any(|h| *h > 0), sites)
        };
        if all_finished {
            break;
        }
        if !any_holding {
            stats.invariant_checks += 1;
            if let Some(what) = invariant() {
                outcome = Some(Outcome::Invariant { step: decisions.len(), what });
                break;
            }
        }
        if runnable.is_empty() {
            outcome = Some(Outcome::Deadlock(format!(
                "no simulated thread can run: {:?}",
                parked_sites
            )));
            break;
        }
        if decisions.len() >= step_budget {
            outcome = Some(Outcome::Stall(format!(
                "step budget {step_budget} exhausted; parked: {:?}",
                parked_sites
            )));
            break;
        }
        let k = decisions.len();
        let chosen = match strategy {
            Strategy::Random { .. } => runnable[rng.usize_below(runnable.len())],
            Strategy::Pct { .. } => {
                let mut best = runnable[0];
                for r in &runnable {
                    if prio[*r] > prio[best] {
                        best = *r;
                    }
                }
                if change_points.contains(&k) {
                    prio[best] = low_water;
                    low_water = low_water.saturating_sub(1);
                    best = runnable[0];
                    for r in &runnable {
                        if prio[*r] > prio[best] {
                            best = *r;
                        }
                    }
                }
                best
            }
            Strategy::Explicit { decisions: d } => match d.get(k) {
                Some(t) if runnable.contains(&(*t as usize)) => *t as usize,
                _ => runnable[0],
            },
        };
        decisions.push(chosen as u8);
        stats.decisions += 1;
        if let Some(l) = last {
            if l != chosen {
                stats.context_switches += 1;
                let st = shared.m.lock().unwrap();
                if st.status[l] == Status::Parked(Site::Acquire) && st.acq_in_op[l] >= 1 {
                    stats.midop_preemptions += 1;
                }
            }
        }
        last = Some(chosen);
        {
            let mut st = shared.m.lock().unwrap();
            st.current = Some(chosen);
            shared.cv.notify_all();
        }
    }

    if outcome.is_some() {
        // tear down: wake every parked thread with the abort flag
        let mut st = shared.m.lock().unwrap();
        st.abort = true;
        shared.cv.notify_all();
        drop(st);
    }
    let mut results = vec![];
    for h in handles {
        results.push(h.join().unwrap_or_else(|_| Err("join failed".into())));
    }
    {
        let st = shared.m.lock().unwrap();
        stats.contended_events = st.contended_events;
        stats.acquisitions = st.acquisitions.iter().sum();
        stats.threads_with_acquisitions = st.acquisitions.iter().filter(|a| **a > 0).count() as u32;
    }
    SimResult {
        outcome: outcome.unwrap_or(Outcome::Done(results)),
        decisions,
        stats,
    }
}
