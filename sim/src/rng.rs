//! The only source of randomness in the simulator: SplitMix64 seeding a
//! xoshiro256** stream. Implemented here so that no dependency upgrade can
//! change which execution a seed denotes.

#[derive(Clone, Debug)]
pub struct Rng {
    s: [u64; 4],
}

pub fn splitmix64(x: &mut u64) -> u64 {
    *x = x.wrapping_add(0x9E37_79B9_7F4A_7C15);
    let mut z = *x;
    z = (z ^ (z >> 30)).wrapping_mul(0xBF58_476D_1CE4_E5B9);
    z = (z ^ (z >> 27)).wrapping_mul(0x94D0_49BB_1331_11EB);
    z ^ (z >> 31)
}

/// Per-run seed: a pure function of (VERIF_SEED, property tag, run index).
pub fn mix(seed: u64, tag: u64, index: u64) -> u64 {
    let mut x = seed ^ tag.wrapping_mul(0xD6E8_FEB8_6659_FD93);
    let a = splitmix64(&mut x);
    let mut y = a ^ index.wrapping_mul(0xA24B_AED4_963E_E407);
    splitmix64(&mut y)
}

impl Rng {
    pub fn new(seed: u64) -> Self {
        let mut x = seed;
        let s = [
            splitmix64(&mut x),
            splitmix64(&mut x),
            splitmix64(&mut x),
            splitmix64(&mut x),
        ];
        Rng { s }
    }

    pub fn next_u64(&mut self) -> u64 {
        let result = self.s[1].wrapping_mul(5).rotate_left(7).wrapping_mul(9);
        let t = self.s[1] << 17;
        self.s[2] ^= self.s[0];
        self.s[3] ^= self.s[1];
        self.s[1] ^= self.s[2];
        self.s[0] ^= self.s[3];
        self.s[2] ^= t;
        self.s[3] = self.s[3].rotate_left(45);
        result
    }

    /// Uniform in 0..n (n > 0). Modulo bias is irrelevant for simulation purposes.
    pub fn below(&mut self, n: u64) -> u64 {
        debug_assert!(n > 0);
        self.next_u64() % n
    }

    pub fn usize_below(&mut self, n: usize) -> usize {
        self.below(n as u64) as usize
    }

    /// Inclusive range.
    pub fn range(&mut self, lo: u64, hi: u64) -> u64 {
        lo + self.below(hi - lo + 1)
    }

    pub fn chance(&mut self, num: u64, den: u64) -> bool {
        self.below(den) < num
    }

    pub fn pick<'a, T>(&mut self, xs: &'a [T]) -> &'a T {
        &xs[self.usize_below(xs.len())]
    }

    pub fn bytes(&mut self, n: usize) -> Vec<u8> {
        let mut v = Vec::with_capacity(n);
        while v.len() < n {
            let x = self.next_u64().to_le_bytes();
            let take = (n - v.len()).min(8);
            v.extend_from_slice(&x[..take]);
        }
        v
    }

    pub fn fork(&mut self) -> Rng {
        Rng::new(self.next_u64())
    }
}

/// Order-sensitive 64-bit digest of an event log (FNV-1a with a final mix).
#[derive(Clone, Debug)]
pub struct Digest(u64);

impl Default for Digest {
    fn default() -> Self {
        Digest(0xcbf2_9ce4_8422_2325)
    }
}

impl Digest {
    pub fn new() -> Self {
        Self::default()
    }
    pub fn bytes(&mut self, b: &[u8]) {
        for x in b {
            self.0 ^= u64::from(*x);
            self.0 = self.0.wrapping_mul(0x0000_0100_0000_01B3);
        }
        // length separator
        self.u64(b.len() as u64 ^ 0x5555);
    }
    pub fn u64(&mut self, v: u64) {
        for x in v.to_le_bytes() {
            self.0 ^= u64::from(x);
            self.0 = self.0.wrapping_mul(0x0000_0100_0000_01B3);
        }
    }
    pub fn str(&mut self, s: &str) {
        self.bytes(s.as_bytes());
    }
    pub fn finish(&self) -> u64 {
        let mut x = self.0;
        splitmix64(&mut x)
    }
}
