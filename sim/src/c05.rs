//! C05 — signature acceptance binds each AGG_SIG condition to its
//! domain-separated text, on every validation path, with or without a pairing
//! cache, while other validations use and evict the same cache concurrently
//! (schedsim, narrowed: the schedule search decides cache/path independence;
//! the per-opcode message rule is decided by the oracle the histories need).

use crate::c15::{gen_strategy, pool, shrink_decisions, NKEYS};
use crate::core::*;
use crate::rng::{Digest, Rng};
use crate::sched::{self, Outcome, Strategy};
use chia_bls::{aggregate, sign, sign_raw, BlsCache, PublicKey, Signature};
use chia_consensus::conditions::{parse_spends, EmptyVisitor, MempoolVisitor};
use chia_consensus::consensus_constants::{ConsensusConstants, TEST_CONSTANTS};
use chia_consensus::flags::{ConsensusFlags, MEMPOOL_MODE};
use chia_consensus::make_aggsig_final_message::make_aggsig_final_message;
use chia_consensus::owned_conditions::OwnedSpendConditions;
use chia_consensus::run_block_generator::{run_block_generator, run_block_generator2};
use chia_consensus::spendbundle_conditions::{get_conditions_from_spendbundle, run_spendbundle};
use chia_consensus::spendbundle_validation::{get_flags_for_height_and_constants, validate_clvm_and_signature};
use chia_protocol::{Bytes32, Coin, CoinSpend, Program, SpendBundle};
use clvmr::allocator::{Allocator, NodePtr};
use clvmr::serde::node_to_bytes;
use serde::{Deserialize, Serialize};
use serde_json::{json, Value};
use sha2::{Digest as _, Sha256};
use std::collections::BTreeMap;
use std::num::NonZeroUsize;
use std::sync::Arc;

#[derive(Serialize, Deserialize, Clone, Debug, PartialEq)]
pub enum KeySpec {
    Pool(u8),
    Infinity,
    /// 48 bytes that are not a valid compressed G1 point
    Garbage(u64),
    /// a point on the curve outside the subgroup: an honest key plus a torsion point. Its
    /// holder can produce a signature that satisfies the pairing equation, so only the
    /// subgroup check when the key is decoded rejects it
    Shifted(u8),
}

#[derive(Serialize, Deserialize, Clone, Debug, PartialEq)]
pub struct CondSpec {
    /// 43..=50
    pub opcode: u8,
    pub key: KeySpec,
    /// message atom, hex
    pub msg: String,
    /// extra trailing arguments after (key, message): ignored by block validation,
    /// rejected in mempool mode (STRICT_ARGS_COUNT)
    #[serde(default)]
    pub extra_args: u8,
}

#[derive(Serialize, Deserialize, Clone, Debug, PartialEq)]
pub struct SpendSpec {
    pub parent_seed: u64,
    pub amount: u64,
    pub conds: Vec<CondSpec>,
    /// false: puzzle `1`, solution = conditions; true: puzzle `(q . conditions)`, solution nil
    /// (the puzzle hash then differs from coin to coin)
    #[serde(default)]
    pub quoted: bool,
    /// other conditions interleaved with the AGG_SIG ones: (position, kind);
    /// kind 0 REMARK, 1 unknown one-byte opcode `(2 "x")`, 2 CREATE_COIN_ANNOUNCEMENT,
    /// 3 ASSERT_MY_AMOUNT (true), 4 unknown opcode given as the empty atom.
    /// Unknown opcodes are ignored by block validation and rejected in mempool mode.
    #[serde(default)]
    pub fillers: Vec<(u8, u8)>,
}

/// In-flight tampering, applied after the wallet signed.
#[derive(Serialize, Deserialize, Clone, Debug, PartialEq)]
pub enum Tamper {
    None,
    DropSig { cond: u8 },
    ExtraSig { key: u8, msg_seed: u64 },
    FlipMsgByte { cond: u8, pos: u16 },
    SwapKey { cond: u8, key: KeySpec },
    ChangeAmount { spend: u8, amount: u64 },
    ChangeParent { spend: u8 },
    SwapOpcode { cond: u8, opcode: u8 },
    /// the wallet signed this condition with another opcode's domain constant
    WrongDomain { cond: u8, opcode: u8 },
    /// an AGG_SIG_UNSAFE message is made to end in one of the 7 domain constants (and is signed as such)
    UnsafeSuffix { cond: u8, which: u8 },
    /// the bundle is delivered with the aggregate signature of another bundle of the run
    /// (one that other validations may already have verified through the shared cache)
    ReplaySignature { from: u8 },
    /// the bundle is delivered with the identity signature
    IdentitySignature,
}

#[derive(Serialize, Deserialize, Clone, Debug, PartialEq)]
pub struct BundleSpec {
    pub spends: Vec<SpendSpec>,
    pub tamper: Tamper,
}

#[derive(Serialize, Deserialize, Clone, Debug, PartialEq)]
pub enum Party {
    /// block validation from the condition tree
    ParseSpends { bundle: u8 },
    /// block validation from a generator
    RunGenerator { bundle: u8 },
    /// block validation from a generator through the legacy (ROM) path
    RunGeneratorLegacy { bundle: u8 },
    /// mempool pre-validation; on success the returned pairings are fed into the cache
    PreValidate { bundle: u8, feed: bool },
    Evict { bundle: u8 },
    /// a node pre-validating the block with the signature check deferred
    /// (DONT_VALIDATE_SIGNATURE) but handed the shared cache all the same: parse_spends, or the
    /// legacy run_block_generator (via 0), run_block_generator2 (via 1), run_spendbundle (via 2)
    /// or get_conditions_from_spendbundle (via 3, mempool mode, no cache). Whatever it does to
    /// the cache must not change anybody else's verdict; its own verdict is judged only as far
    /// as the property speaks about it: the rejections that do not depend on the signature
    /// (AGG_SIG_UNSAFE message ending in a domain constant, infinity / malformed key, the same
    /// coin twice) must happen here too, and a bundle without them is accepted whatever its
    /// signature is.
    DeferredSignature {
        bundle: u8,
        legacy: bool,
        #[serde(default)]
        via: u8,
    },
}

#[derive(Serialize, Deserialize, Clone, Debug)]
pub struct Case {
    pub constants_seed: u64,
    pub capacity: u32,
    pub cost_conditions: bool,
    /// parse_spends with the MempoolVisitor instead of the EmptyVisitor
    #[serde(default)]
    pub mempool_visitor: bool,
    /// bit 0: LIMIT_SPENDS, bit 1: SIMPLE_GENERATOR (the generator is a plain quote, so both are harmless)
    #[serde(default)]
    pub extra_flags: u8,
    /// which fork era the node believes it is in: 0 = before hard fork 2, 1 = after it,
    /// 2 = after soft fork 8, 3 = after soft fork 9; the era's flags come from the real
    /// get_flags_for_height_and_constants and are added on every path
    #[serde(default)]
    pub era: u8,
    /// how the block-validation paths receive the bundle: 0 = plain serialisation, every
    /// condition its own CLVM node; 1 = generator and spend list serialised with
    /// back-references (identical sub-trees, e.g. a condition emitted twice, decode to ONE
    /// node); 2 = as 1 and run_block_generator2 additionally runs with INTERNED_GENERATOR;
    /// 3 = plain bytes with INTERNED_GENERATOR. The verdict must not depend on it.
    #[serde(default)]
    pub node_sharing: u8,
    pub bundles: Vec<BundleSpec>,
    pub prefix: Vec<Party>,
    pub threads: Vec<Vec<Party>>,
    pub strategy: Strategy,
    /// also validate every bundle without any cache
    pub no_cache_paths: bool,
}

fn sha(parts: &[&[u8]]) -> [u8; 32] {
    let mut h = Sha256::new();
    for p in parts {
        h.update(p);
    }
    h.finalize().into()
}

/// minimal big-endian two's complement encoding (reference, independent of the repo's helpers)
fn int_atom(v: u64) -> Vec<u8> {
    if v == 0 {
        return vec![];
    }
    let b = v.to_be_bytes();
    let mut i = 0;
    while b[i] == 0 {
        i += 1;
    }
    let mut out = vec![];
    if b[i] & 0x80 != 0 {
        out.push(0);
    }
    out.extend_from_slice(&b[i..]);
    out
}

fn puzzle_hash_of_1() -> [u8; 32] {
    sha(&[&[1u8], &[1u8]])
}

/// the seven domain constants of a run, in the order
/// [me(50), parent(43), puzzle(44), amount(45), puzzle_amount(46), parent_amount(47), parent_puzzle(48)]
fn domain_constants(seed: u64) -> [[u8; 32]; 7] {
    let mut out = [[0u8; 32]; 7];
    for (i, o) in out.iter_mut().enumerate() {
        *o = sha(&[b"domain", &seed.to_le_bytes(), &[i as u8]]);
    }
    // one run in four gets constants with structure that uniformly random ones never have:
    // two opcodes sharing a constant, constants differing in one byte only, all-zero / all-ones
    let a = ((seed >> 8) % 7) as usize;
    let b = (a + 1 + ((seed >> 16) % 6) as usize) % 7;
    match seed % 20 {
        0 => out[a] = out[b],
        1 => out[a] = [0u8; 32],
        2 => {
            out[a] = out[b];
            out[a][31] ^= 1;
        }
        3 => {
            out[a] = out[b];
            out[a][0] ^= 0x80;
        }
        4 => out[a] = [0xffu8; 32],
        _ => {}
    }
    out
}

fn const_index(opcode: u8) -> Option<usize> {
    match opcode {
        50 => Some(0),
        43 => Some(1),
        44 => Some(2),
        45 => Some(3),
        46 => Some(4),
        47 => Some(5),
        48 => Some(6),
        _ => None,
    }
}

fn constants_for(case: &Case) -> ConsensusConstants {
    let d = domain_constants(case.constants_seed);
    let mut k = TEST_CONSTANTS.clone();
    k.agg_sig_me_additional_data = Bytes32::new(d[0]);
    k.agg_sig_parent_additional_data = Bytes32::new(d[1]);
    k.agg_sig_puzzle_additional_data = Bytes32::new(d[2]);
    k.agg_sig_amount_additional_data = Bytes32::new(d[3]);
    k.agg_sig_puzzle_amount_additional_data = Bytes32::new(d[4]);
    k.agg_sig_parent_amount_additional_data = Bytes32::new(d[5]);
    k.agg_sig_parent_puzzle_additional_data = Bytes32::new(d[6]);
    k.hard_fork2_height = 100;
    k.soft_fork8_height = 200;
    k.soft_fork9_height = 300;
    k
}

/// Reference rule table (CHIP-11 as restated by the property): which coin
/// attributes are appended, in which order, before the opcode's constant.
fn reference_message(opcode: u8, msg: &[u8], parent: &[u8; 32], ph: &[u8; 32], amount: u64, d: &[[u8; 32]; 7]) -> Vec<u8> {
    let mut m = msg.to_vec();
    let amt = int_atom(amount);
    match opcode {
        43 => {
            m.extend_from_slice(parent);
        }
        44 => {
            m.extend_from_slice(ph);
        }
        45 => {
            m.extend_from_slice(&amt);
        }
        46 => {
            m.extend_from_slice(ph);
            m.extend_from_slice(&amt);
        }
        47 => {
            m.extend_from_slice(parent);
            m.extend_from_slice(&amt);
        }
        48 => {
            m.extend_from_slice(parent);
            m.extend_from_slice(ph);
        }
        49 => {}
        50 => {
            let id = sha(&[parent, ph, &amt]);
            m.extend_from_slice(&id);
        }
        _ => {}
    }
    if let Some(i) = const_index(opcode) {
        m.extend_from_slice(&d[i]);
    }
    m
}

fn key_bytes(k: &KeySpec) -> [u8; 48] {
    match k {
        KeySpec::Pool(i) => pool().pks[*i as usize % NKEYS].to_bytes(),
        KeySpec::Infinity => {
            let mut b = [0u8; 48];
            b[0] = 0xc0;
            b
        }
        KeySpec::Shifted(i) => {
            let p = pool();
            if p.shifted_pks.is_empty() {
                let mut b = [0xffu8; 48];
                b[0] = 0x9f;
                b
            } else {
                p.shifted_pks[*i as usize % p.shifted_pks.len()].0.to_bytes()
            }
        }
        KeySpec::Garbage(seed) => {
            // x-coordinate all ones is not below the field modulus: never a valid point
            let mut b = [0xffu8; 48];
            b[0] = 0x9f;
            b[47] = (*seed & 0xff) as u8;
            b
        }
    }
}

#[derive(Clone)]
struct DCond {
    opcode: u8,
    key: KeySpec,
    msg: Vec<u8>,
    extra_args: u8,
}

#[derive(Clone)]
struct DSpend {
    parent: [u8; 32],
    amount: u64,
    conds: Vec<DCond>,
    quoted: bool,
    fillers: Vec<(u8, u8)>,
}

/// puzzle hash of a spend as it stands (for a quoted puzzle it depends on the conditions)
fn spend_ph(s: &DSpend) -> [u8; 32] {
    if !s.quoted {
        return puzzle_hash_of_1();
    }
    let mut a = Allocator::new();
    let conds = cond_list(&mut a, s);
    let q = a.new_atom(&[1]).unwrap();
    let puzzle = a.new_pair(q, conds).unwrap();
    clvm_utils::tree_hash(&a, puzzle).to_bytes()
}

/// What reaches the validators, plus what the wallet actually signed.
struct Delivered {
    spends: Vec<DSpend>,
    signature: Signature,
    signed: Vec<(Vec<u8>, Vec<u8>)>, // (key bytes, exact signed message)
    helper_mismatch: Option<String>,
}

fn flat_index(spends: &[DSpend], cond: u8) -> Option<(usize, usize)> {
    let total: usize = spends.iter().map(|s| s.conds.len()).sum();
    if total == 0 {
        return None;
    }
    let mut n = cond as usize % total;
    for (i, s) in spends.iter().enumerate() {
        if n < s.conds.len() {
            return Some((i, n));
        }
        n -= s.conds.len();
    }
    None
}

fn deliver(b: &BundleSpec, consts: &ConsensusConstants, d: &[[u8; 32]; 7]) -> Delivered {
    let p = pool();
    let mut spends: Vec<DSpend> = b
        .spends
        .iter()
        .map(|s| DSpend {
            parent: sha(&[b"c05parent", &s.parent_seed.to_le_bytes()]),
            amount: s.amount,
            conds: s.conds.iter().map(|c| DCond { opcode: c.opcode, key: c.key.clone(), msg: hex::decode(&c.msg).unwrap_or_default(), extra_args: c.extra_args }).collect(),
            quoted: s.quoted,
            fillers: s.fillers.clone(),
        })
        .collect();
    // a tampering that is part of what the wallet signs
    if let Tamper::UnsafeSuffix { cond, which } = &b.tamper {
        if let Some((i, j)) = flat_index(&spends, *cond) {
            spends[i].conds[j].opcode = 49;
            // which >= 7: the message is exactly the constant
            let mut m = if *which >= 7 { vec![] } else { spends[i].conds[j].msg.clone() };
            m.extend_from_slice(&d[*which as usize % 7]);
            spends[i].conds[j].msg = m;
        }
    }
    // ---- the wallet signs, using the real helper ----
    let mut signed: Vec<(Vec<u8>, Vec<u8>)> = vec![];
    let mut sigs: Vec<Signature> = vec![];
    let mut helper_mismatch = None;
    let wrong_domain = match &b.tamper {
        Tamper::WrongDomain { cond, opcode } => flat_index(&spends, *cond).map(|x| (x, *opcode)),
        _ => None,
    };
    for (i, s) in spends.iter().enumerate() {
        let ph = spend_ph(s);
        let owned = OwnedSpendConditions {
            coin_id: Bytes32::new(sha(&[&s.parent, &ph, &int_atom(s.amount)])),
            parent_id: Bytes32::new(s.parent),
            puzzle_hash: Bytes32::new(ph),
            coin_amount: s.amount,
            ..Default::default()
        };
        for (j, c) in s.conds.iter().enumerate() {
            if let KeySpec::Shifted(si) = &c.key {
                // the holder of the honest secret key signs the message augmented with the shifted key
                if !p.shifted_pks.is_empty() {
                    let (spk, k) = &p.shifted_pks[*si as usize % p.shifted_pks.len()];
                    let reference = reference_message(c.opcode, &c.msg, &s.parent, &ph, s.amount, d);
                    let mut aug = spk.to_bytes().to_vec();
                    aug.extend_from_slice(&reference);
                    sigs.push(sign_raw(&p.sks[*k], &aug));
                    signed.push((spk.to_bytes().to_vec(), reference));
                }
                continue;
            }
            let KeySpec::Pool(k) = &c.key else { continue };
            let k = *k as usize % NKEYS;
            let sign_opcode = match wrong_domain {
                Some(((wi, wj), op)) if wi == i && wj == j => op,
                _ => c.opcode,
            };
            let mut m = c.msg.clone();
            make_aggsig_final_message(u16::from(sign_opcode), &mut m, &owned, consts);
            let reference = reference_message(sign_opcode, &c.msg, &s.parent, &ph, s.amount, d);
            if m != reference && helper_mismatch.is_none() {
                helper_mismatch = Some(format!(
                    "make_aggsig_final_message(opcode {sign_opcode}, amount {}) = {} but the rule gives {}",
                    s.amount,
                    hex::encode(&m),
                    hex::encode(&reference)
                ));
            }
            sigs.push(sign(&p.sks[k], &reference));
            signed.push((p.pks[k].to_bytes().to_vec(), reference));
        }
    }
    // ---- in-flight tampering ----
    match &b.tamper {
        Tamper::DropSig { cond } => {
            if !sigs.is_empty() {
                let i = *cond as usize % sigs.len();
                sigs.remove(i);
                signed.remove(i);
            }
        }
        Tamper::ExtraSig { key, msg_seed } => {
            let k = *key as usize % NKEYS;
            let m = sha(&[b"extra", &msg_seed.to_le_bytes()]).to_vec();
            sigs.push(sign(&p.sks[k], &m));
            signed.push((p.pks[k].to_bytes().to_vec(), m));
        }
        Tamper::FlipMsgByte { cond, pos } => {
            if let Some((i, j)) = flat_index(&spends, *cond) {
                let m = &mut spends[i].conds[j].msg;
                if m.is_empty() {
                    m.push(1);
                } else {
                    let p = *pos as usize % m.len();
                    m[p] ^= 0x01;
                }
            }
        }
        Tamper::SwapKey { cond, key } => {
            if let Some((i, j)) = flat_index(&spends, *cond) {
                spends[i].conds[j].key = key.clone();
            }
        }
        Tamper::ChangeAmount { spend, amount } => {
            if !spends.is_empty() {
                let i = *spend as usize % spends.len();
                spends[i].amount = *amount;
            }
        }
        Tamper::ChangeParent { spend } => {
            if !spends.is_empty() {
                let i = *spend as usize % spends.len();
                spends[i].parent[5] ^= 0x40;
            }
        }
        Tamper::SwapOpcode { cond, opcode } => {
            if let Some((i, j)) = flat_index(&spends, *cond) {
                spends[i].conds[j].opcode = *opcode;
            }
        }
        Tamper::IdentitySignature => {
            sigs.clear();
            signed.clear();
        }
        Tamper::None | Tamper::WrongDomain { .. } | Tamper::UnsafeSuffix { .. } | Tamper::ReplaySignature { .. } => {}
    }
    Delivered { spends, signature: aggregate(&sigs), signed, helper_mismatch }
}

struct Truth {
    accept: bool,
    /// the bundle carries a condition with an unknown opcode or an AGG_SIG condition with
    /// extra trailing arguments: block validation ignores them, mempool mode
    /// (NO_UNKNOWN_CONDS, STRICT_ARGS_COUNT) rejects the bundle
    unknown_cond: bool,
    why: &'static str,
    /// the rejection does not depend on the signature (holds with signature checking deferred too)
    structural: bool,
    /// (key bytes, reference message) of every condition with a valid key, in order
    pairs: Vec<(Vec<u8>, Vec<u8>)>,
}

/// Expected verdict, by construction, computed from the bundle as delivered.
fn truth(dl: &Delivered, d: &[[u8; 32]; 7]) -> Truth {
    let unknown_cond = dl.spends.iter().any(|s| s.fillers.iter().any(|f| matches!(f.1, 1 | 4 | 5 | 6)) || s.conds.iter().any(|c| c.extra_args > 0));
    let mut pairs = vec![];
    let mut bad_key = false;
    let mut unsafe_suffix = false;
    for s in &dl.spends {
        let ph = spend_ph(s);
        for c in &s.conds {
            let m = reference_message(c.opcode, &c.msg, &s.parent, &ph, s.amount, d);
            if c.opcode == 49 && d.iter().any(|k| c.msg.ends_with(k)) {
                unsafe_suffix = true;
            }
            match &c.key {
                KeySpec::Pool(_) => pairs.push((key_bytes(&c.key).to_vec(), m)),
                _ => bad_key = true,
            }
        }
    }
    // the same coin twice is rejected whatever the signature says (a tampering of
    // amount or parent can make two spends collide)
    let mut ids = std::collections::BTreeSet::new();
    for s in &dl.spends {
        if !ids.insert(sha(&[&s.parent, &spend_ph(s), &int_atom(s.amount)])) {
            return Truth { accept: false, unknown_cond, why: "same_coin_spent_twice", structural: true, pairs };
        }
    }
    if bad_key {
        return Truth { accept: false, unknown_cond, why: "infinity_or_malformed_key", structural: true, pairs };
    }
    if unsafe_suffix {
        return Truth { accept: false, unknown_cond, why: "unsafe_message_ends_in_domain_constant", structural: true, pairs };
    }
    let mut a = pairs.clone();
    let mut b = dl.signed.clone();
    a.sort();
    b.sort();
    if a == b {
        Truth { accept: true, unknown_cond, why: "signed_exactly_the_prescribed_pairs", structural: false, pairs }
    } else {
        Truth { accept: false, unknown_cond, why: "signed_pairs_differ_from_prescribed_pairs", structural: false, pairs }
    }
}

fn list(a: &mut Allocator, items: &[NodePtr]) -> NodePtr {
    let mut r = a.nil();
    for it in items.iter().rev() {
        r = a.new_pair(*it, r).unwrap();
    }
    r
}

fn cond_list(a: &mut Allocator, s: &DSpend) -> NodePtr {
    let mut conds = vec![];
    let filler = |a: &mut Allocator, kind: u8| -> NodePtr {
        match kind {
            1 => {
                let op = a.new_atom(&[2]).unwrap();
                let m = a.new_atom(b"x").unwrap();
                list(a, &[op, m])
            }
            2 => {
                let op = a.new_atom(&[60]).unwrap();
                let m = a.new_atom(b"announce").unwrap();
                list(a, &[op, m])
            }
            3 => {
                let op = a.new_atom(&[73]).unwrap();
                let am = a.new_atom(&int_atom(s.amount)).unwrap();
                list(a, &[op, am])
            }
            4 => {
                let op = a.nil();
                let m = a.new_atom(b"x").unwrap();
                list(a, &[op, m])
            }
            5 | 6 => {
                // AGG_SIG_ME by an honest key nobody signed for, with the opcode written as 0x0032
                // (redundant leading zero) or as the two-byte opcode 0x0132: unknown conditions,
                // no pair is due
                let op = a.new_atom(&[if kind == 5 { 0 } else { 1 }, 50]).unwrap();
                let k = a.new_atom(&key_bytes(&KeySpec::Pool(1))).unwrap();
                let m = a.new_atom(b"not signed").unwrap();
                list(a, &[op, k, m])
            }
            _ => {
                let op = a.new_atom(&[1]).unwrap();
                let m = a.new_atom(b"remark").unwrap();
                list(a, &[op, m])
            }
        }
    };
    for (j, c) in s.conds.iter().enumerate() {
        for f in s.fillers.iter().filter(|f| f.0 as usize == j) {
            let n = filler(a, f.1);
            conds.push(n);
        }
        let op = a.new_atom(&[c.opcode]).unwrap();
        let k = a.new_atom(&key_bytes(&c.key)).unwrap();
        let m = a.new_atom(&c.msg).unwrap();
        let mut items = vec![op, k, m];
        for e in 0..c.extra_args {
            items.push(a.new_atom(&[0x60 + e]).unwrap());
        }
        conds.push(list(a, &items));
    }
    for f in s.fillers.iter().filter(|f| f.0 as usize >= s.conds.len()) {
        let n = filler(a, f.1);
        conds.push(n);
    }
    list(a, &conds)
}

struct Built {
    /// ((parent puzzle_hash amount conditions) ...) wrapped as parse_spends expects, serialised
    spends_tree: Vec<u8>,
    generator: Vec<u8>,
    bundle: SpendBundle,
    signature: Signature,
    mempool_visitor: bool,
    node_sharing: u8,
}

fn build(dl: &Delivered, mempool_visitor: bool, node_sharing: u8) -> Built {
    let mut a = Allocator::new();
    let mut tree_items = vec![];
    let mut gen_items = vec![];
    let mut coin_spends = vec![];
    for s in &dl.spends {
        let ph = spend_ph(s);
        let conds = cond_list(&mut a, s);
        let parent = a.new_atom(&s.parent).unwrap();
        let phn = a.new_atom(&ph).unwrap();
        let am = a.new_atom(&int_atom(s.amount)).unwrap();
        tree_items.push(list(&mut a, &[parent, phn, am, conds]));
        let one = a.new_atom(&[1]).unwrap();
        let (puzzle, solution) = if s.quoted { (a.new_pair(one, conds).unwrap(), a.nil()) } else { (one, conds) };
        gen_items.push(list(&mut a, &[parent, puzzle, am, solution]));
        coin_spends.push(CoinSpend::new(
            Coin::new(Bytes32::new(s.parent), Bytes32::new(ph), s.amount),
            Program::from(node_to_bytes(&a, puzzle).unwrap()),
            Program::from(node_to_bytes(&a, solution).unwrap()),
        ));
    }
    let tl = list(&mut a, &tree_items);
    let tree = list(&mut a, &[tl]);
    let gl = list(&mut a, &gen_items);
    let inner = list(&mut a, &[gl]);
    let q = a.new_atom(&[1]).unwrap();
    let generator = a.new_pair(q, inner).unwrap();
    let backrefs = matches!(node_sharing % 4, 1 | 2);
    Built {
        spends_tree: if backrefs { clvmr::serde::node_to_bytes_backrefs(&a, tree).unwrap() } else { node_to_bytes(&a, tree).unwrap() },
        generator: if backrefs { clvmr::serde::node_to_bytes_backrefs(&a, generator).unwrap() } else { node_to_bytes(&a, generator).unwrap() },
        bundle: SpendBundle::new(coin_spends, dl.signature.clone()),
        signature: dl.signature.clone(),
        mempool_visitor,
        node_sharing: node_sharing % 4,
    }
}

const MAX_COST: u64 = 11_000_000_000;

fn block_flags(case: &Case) -> ConsensusFlags {
    let mut f = if case.cost_conditions { ConsensusFlags::COST_CONDITIONS } else { ConsensusFlags::empty() };
    f |= get_flags_for_height_and_constants(50 + 100 * u32::from(case.era.min(3)), &constants_for(case));
    if case.extra_flags & 1 != 0 {
        f |= ConsensusFlags::LIMIT_SPENDS;
    }
    if case.extra_flags & 2 != 0 {
        f |= ConsensusFlags::SIMPLE_GENERATOR;
    }
    f
}

fn path_parse_spends(b: &Built, cache: Option<&BlsCache>, k: &ConsensusConstants, flags: ConsensusFlags) -> Result<(), String> {
    let mut a = Allocator::new();
    let tree = if matches!(b.node_sharing, 1 | 2) {
        clvmr::serde::node_from_bytes_backrefs(&mut a, &b.spends_tree).map_err(|e| format!("{e:?}"))?
    } else {
        clvmr::serde::node_from_bytes(&mut a, &b.spends_tree).map_err(|e| format!("{e:?}"))?
    };
    if b.mempool_visitor {
        parse_spends::<MempoolVisitor>(&a, tree, MAX_COST, 0, flags, &b.signature, cache, k)
            .map(|_| ())
            .map_err(|e| format!("{:?}", e.error_code()))
    } else {
        parse_spends::<EmptyVisitor>(&a, tree, MAX_COST, 0, flags, &b.signature, cache, k)
            .map(|_| ())
            .map_err(|e| format!("{:?}", e.error_code()))
    }
}

fn path_generator(b: &Built, cache: Option<&BlsCache>, k: &ConsensusConstants, flags: ConsensusFlags) -> Result<(), String> {
    let flags = if b.node_sharing >= 2 { flags | ConsensusFlags::INTERNED_GENERATOR } else { flags };
    run_block_generator2::<&[u8], _>(&b.generator, [], MAX_COST, flags, &b.signature, cache, k)
        .map(|_| ())
        .map_err(|e| format!("{:?}", e.error_code()))
}

fn path_generator_legacy(b: &Built, cache: Option<&BlsCache>, k: &ConsensusConstants, flags: ConsensusFlags) -> Result<(), String> {
    run_block_generator::<&[u8], _>(&b.generator, [], MAX_COST, flags, &b.signature, cache, k)
        .map(|_| ())
        .map_err(|e| format!("{:?}", e.error_code()))
}

#[derive(Clone, Debug)]
enum PartyResult {
    Verdict(Result<(), String>),
    /// verdict plus the cache keys returned by pre-validation and whether they matched the reference
    Pre { verdict: Result<(), String>, key_problem: Option<String>, fed: usize },
    /// verdict of a pass with the signature check deferred; mempool: it ran in mempool mode
    Deferred { verdict: Result<(), String>, mempool: bool },
    Unit,
}

fn run_party(
    party: &Party,
    cache: &BlsCache,
    built: &[Built],
    truths: &[Truth],
    k: &ConsensusConstants,
    flags: ConsensusFlags,
) -> PartyResult {
    match party {
        Party::ParseSpends { bundle } => {
            let b = &built[*bundle as usize % built.len()];
            PartyResult::Verdict(path_parse_spends(b, Some(cache), k, flags))
        }
        Party::RunGenerator { bundle } => {
            let b = &built[*bundle as usize % built.len()];
            PartyResult::Verdict(path_generator(b, Some(cache), k, flags))
        }
        Party::RunGeneratorLegacy { bundle } => {
            let b = &built[*bundle as usize % built.len()];
            PartyResult::Verdict(path_generator_legacy(b, Some(cache), k, flags))
        }
        Party::PreValidate { bundle, feed } => {
            let i = *bundle as usize % built.len();
            let b = &built[i];
            match validate_clvm_and_signature(&b.bundle, MAX_COST, k, flags | MEMPOOL_MODE) {
                Err(e) => PartyResult::Pre { verdict: Err(format!("{:?}", e.error_code())), key_problem: None, fed: 0 },
                Ok((_conds, pairs)) => {
                    // the returned cache keys must be sha256(pk || prescribed message), one per condition
                    let mut want: BTreeMap<[u8; 32], Vec<Vec<u8>>> = BTreeMap::new();
                    for (kb, m) in &truths[i].pairs {
                        let mut aug = kb.clone();
                        aug.extend_from_slice(m);
                        want.entry(sha(&[&aug])).or_default().push(aug);
                    }
                    let mut key_problem = None;
                    let want_count: usize = want.values().map(Vec::len).sum();
                    if pairs.len() != want_count {
                        key_problem = Some(format!("{} pairings returned for {} AGG_SIG conditions", pairs.len(), want_count));
                    }
                    let mut fed = 0;
                    for (key, gt) in &pairs {
                        match want.get(key) {
                            Some(augs) => {
                                if *feed {
                                    cache.update(&augs[0], gt.clone());
                                    fed += 1;
                                }
                            }
                            None => {
                                if key_problem.is_none() {
                                    key_problem = Some("a returned cache key is not sha256(pk || prescribed message) of any condition".to_string());
                                }
                            }
                        }
                    }
                    PartyResult::Pre { verdict: Ok(()), key_problem, fed }
                }
            }
        }
        Party::DeferredSignature { bundle, legacy, via } => {
            let b = &built[*bundle as usize % built.len()];
            let f = flags | ConsensusFlags::DONT_VALIDATE_SIGNATURE;
            match via % 4 {
                1 => PartyResult::Deferred { verdict: path_generator(b, Some(cache), k, f), mempool: false },
                2 => {
                    let mut a = Allocator::new();
                    let verdict = run_spendbundle(&mut a, &b.bundle, MAX_COST, f, k).map(|_| ()).map_err(|e| format!("{:?}", e.error_code()));
                    PartyResult::Deferred { verdict, mempool: false }
                }
                3 => {
                    let mut a = Allocator::new();
                    let verdict = get_conditions_from_spendbundle(&mut a, &b.bundle, MAX_COST, if *bundle % 2 == 0 { 0 } else { 10_000_000 }, k).map(|_| ()).map_err(|e| format!("{:?}", e.error_code()));
                    PartyResult::Deferred { verdict, mempool: true }
                }
                _ => {
                    let verdict = if *legacy { path_generator_legacy(b, Some(cache), k, f) } else { path_parse_spends(b, Some(cache), k, f) };
                    PartyResult::Deferred { verdict, mempool: false }
                }
            }
        }
        Party::Evict { bundle } => {
            let i = *bundle as usize % built.len();
            let items: Vec<(PublicKey, Vec<u8>)> = truths[i]
                .pairs
                .iter()
                .filter_map(|(kb, m)| {
                    let arr: [u8; 48] = kb.as_slice().try_into().ok()?;
                    PublicKey::from_bytes(&arr).ok().map(|pk| (pk, m.clone()))
                })
                .collect();
            cache.evict(items.iter().map(|(pk, m)| (pk, m.as_slice())));
            PartyResult::Unit
        }
    }
}

/// The final sweep, on one thread: every bundle through the block path with the shared cache,
/// then through mempool pre-validation, then every bundle through pre-validation once more (a
/// peer submitting it again) — a verdict must not depend on what the same thread validated
/// (and possibly rejected) before.
fn sweep_parties(n: usize) -> Vec<Party> {
    let mut v = vec![];
    for i in 0..n {
        v.push(Party::ParseSpends { bundle: i as u8 });
        v.push(Party::PreValidate { bundle: i as u8, feed: false });
    }
    for i in 0..n {
        v.push(Party::PreValidate { bundle: i as u8, feed: false });
    }
    v
}

fn party_bundle(p: &Party) -> usize {
    match p {
        Party::ParseSpends { bundle }
        | Party::RunGenerator { bundle }
        | Party::RunGeneratorLegacy { bundle }
        | Party::PreValidate { bundle, .. }
        | Party::DeferredSignature { bundle, .. }
        | Party::Evict { bundle } => *bundle as usize,
    }
}

fn party_name(p: &Party) -> &'static str {
    match p {
        Party::ParseSpends { .. } => "parse_spends",
        Party::RunGenerator { .. } => "run_block_generator2",
        Party::RunGeneratorLegacy { .. } => "run_block_generator",
        Party::PreValidate { .. } => "validate_clvm_and_signature",
        Party::Evict { .. } => "evict",
        Party::DeferredSignature { .. } => "deferred_signature_pass",
    }
}

fn tamper_name(t: &Tamper) -> &'static str {
    match t {
        Tamper::None => "none",
        Tamper::DropSig { .. } => "drop_signature",
        Tamper::ExtraSig { .. } => "extra_signature",
        Tamper::FlipMsgByte { .. } => "flip_message_byte",
        Tamper::SwapKey { .. } => "swap_key",
        Tamper::ChangeAmount { .. } => "change_amount",
        Tamper::ChangeParent { .. } => "change_parent",
        Tamper::SwapOpcode { .. } => "swap_opcode",
        Tamper::WrongDomain { .. } => "wrong_domain_constant",
        Tamper::UnsafeSuffix { .. } => "unsafe_message_with_domain_suffix",
        Tamper::ReplaySignature { .. } => "signature_of_another_bundle",
        Tamper::IdentitySignature => "identity_signature",
    }
}

pub struct C05;

fn viol(sig: String, step: usize, detail: String) -> Violation {
    Violation { signature: sig, step, detail }
}

/// compares one party's result with the ground truth
fn judge(party: &Party, r: &PartyResult, truths: &[Truth], case: &Case, phase: &str) -> Option<(String, String)> {
    let i = party_bundle(party) % truths.len();
    let t = &truths[i];
    let tamper = tamper_name(&case.bundles[i].tamper);
    let verdict = match r {
        PartyResult::Verdict(v) => v,
        PartyResult::Pre { verdict, key_problem, .. } => {
            if let (Ok(()), Some(kp)) = (verdict, key_problem) {
                if t.accept && !t.unknown_cond {
                    return Some((format!("prevalidation_cache_keys:{phase}"), kp.clone()));
                }
            }
            verdict
        }
        PartyResult::Deferred { verdict, mempool } => {
            let want = !t.structural && !(*mempool && t.unknown_cond);
            if verdict.is_ok() != want {
                let path = party_name(party);
                let why = if t.structural { t.why } else if !want { "unknown_condition_or_extra_arguments_in_mempool_mode" } else { "no_signature_independent_reason_to_reject" };
                return Some((
                    format!("verdict:{path}:{phase}:expected_{}_got_{}:{}", if want { "accept" } else { "reject" }, if verdict.is_ok() { "accept" } else { "reject" }, why),
                    format!("bundle {i} (tampering: {tamper}): {path} (signature check deferred) returned {verdict:?}; ground truth: {} ({})", if want { "accept" } else { "reject" }, why),
                ));
            }
            return None;
        }
        PartyResult::Unit => return None,
    };
    let got = verdict.is_ok();
    let strict = matches!(party, Party::PreValidate { .. });
    let want = t.accept && !(strict && t.unknown_cond);
    if got != want {
        let path = party_name(party);
        let why = if t.accept && !want { "unknown_condition_or_extra_arguments_in_mempool_mode" } else { t.why };
        return Some((
            format!("verdict:{path}:{phase}:expected_{}_got_{}:{}", if want { "accept" } else { "reject" }, if got { "accept" } else { "reject" }, why),
            format!("bundle {i} (tampering: {tamper}): {path} returned {verdict:?}; ground truth: {} ({})", if want { "accept" } else { "reject" }, why),
        ));
    }
    None
}

impl C05 {
    fn exec(&self, case: &Case, c: &mut Counters) -> RunOutput<Case> {
        let mut d = Digest::new();
        let k = constants_for(case);
        let dconst = domain_constants(case.constants_seed);
        let flags = block_flags(case);
        let out = |violation: Option<Violation>, d: &Digest, nontrivial: Option<u64>, resolved: Option<Case>| RunOutput {
            violation,
            digest: d.finish(),
            nontrivial,
            resolved,
        };
        if case.bundles.is_empty() {
            return out(None, &d, None, None);
        }
        // ---- wallet, channel (tampering), ground truth ----
        let mut delivered: Vec<Delivered> = case.bundles.iter().map(|b| deliver(b, &k, &dconst)).collect();
        for i in 0..delivered.len() {
            if let Tamper::ReplaySignature { from } = &case.bundles[i].tamper {
                let j = *from as usize % delivered.len();
                if j != i {
                    delivered[i].signature = delivered[j].signature.clone();
                    delivered[i].signed = delivered[j].signed.clone();
                }
            }
        }
        for (i, dl) in delivered.iter().enumerate() {
            if let Some(m) = &dl.helper_mismatch {
                return out(Some(viol("helper_message_differs_from_rule".into(), i, m.clone())), &d, None, None);
            }
        }
        let truths: Arc<Vec<Truth>> = Arc::new(delivered.iter().map(|dl| truth(dl, &dconst)).collect());
        let built: Arc<Vec<Built>> = Arc::new(delivered.iter().map(|dl| build(dl, case.mempool_visitor, case.node_sharing)).collect());
        for (i, t) in truths.iter().enumerate() {
            d.u64(u64::from(t.accept));
            if t.accept { c.inc("bundles.expected_accept") } else { c.inc("bundles.expected_reject") }
            match &case.bundles[i].tamper {
                Tamper::None => {}
                Tamper::DropSig { .. } => c.inc("fault.tamper.drop_signature"),
                Tamper::ExtraSig { .. } => c.inc("fault.tamper.extra_signature"),
                Tamper::FlipMsgByte { .. } => c.inc("fault.tamper.flip_message_byte"),
                Tamper::SwapKey { .. } => c.inc("fault.tamper.swap_key"),
                Tamper::ChangeAmount { .. } => c.inc("fault.tamper.change_amount"),
                Tamper::ChangeParent { .. } => c.inc("fault.tamper.change_parent"),
                Tamper::SwapOpcode { .. } => c.inc("fault.tamper.swap_opcode"),
                Tamper::WrongDomain { .. } => c.inc("fault.tamper.wrong_domain_constant"),
                Tamper::UnsafeSuffix { .. } => c.inc("fault.tamper.unsafe_message_with_domain_suffix"),
                Tamper::ReplaySignature { .. } => c.inc("fault.tamper.signature_of_another_bundle"),
                Tamper::IdentitySignature => c.inc("fault.tamper.identity_signature"),
            }
            if case.bundles[i].tamper != Tamper::None && t.accept {
                c.inc("probe.tampering_that_reaches_no_signed_text");
            }
            let mut seen = std::collections::BTreeSet::new();
            if t.pairs.iter().any(|p| !seen.insert(p.clone())) {
                c.inc("probe.bundle_with_repeated_identical_pair");
            }
        }

        // ---- the cache-free verdicts (outside the concurrent phase) ----
        if case.no_cache_paths {
            for (i, b) in built.iter().enumerate() {
                let checks: [(&str, Result<(), String>); 4] = [
                    ("run_block_generator", std::panic::catch_unwind(std::panic::AssertUnwindSafe(|| path_generator_legacy(b, None, &k, flags))).unwrap_or(Err("panic".into()))),
                    ("parse_spends", std::panic::catch_unwind(std::panic::AssertUnwindSafe(|| path_parse_spends(b, None, &k, flags))).unwrap_or(Err("panic".into()))),
                    ("run_block_generator2", std::panic::catch_unwind(std::panic::AssertUnwindSafe(|| path_generator(b, None, &k, flags))).unwrap_or(Err("panic".into()))),
                    (
                        "validate_clvm_and_signature",
                        std::panic::catch_unwind(std::panic::AssertUnwindSafe(|| {
                            validate_clvm_and_signature(&b.bundle, MAX_COST, &k, flags | MEMPOOL_MODE).map(|_| ()).map_err(|e| format!("{:?}", e.error_code()))
                        }))
                        .unwrap_or(Err("panic".into())),
                    ),
                ];
                c.inc("no_cache_validations");
                for (path, r) in checks {
                    d.u64(u64::from(r.is_ok()));
                    let want = truths[i].accept && !(path == "validate_clvm_and_signature" && truths[i].unknown_cond);
                    if r.is_ok() != want {
                        return out(
                            Some(viol(
                                format!("verdict:{path}:no_cache:expected_{}_got_{}:{}", if truths[i].accept { "accept" } else { "reject" }, if r.is_ok() { "accept" } else { "reject" }, truths[i].why),
                                i,
                                format!("bundle {i} (tampering: {}): {path} without a cache returned {r:?}; ground truth {}", tamper_name(&case.bundles[i].tamper), truths[i].why),
                            )),
                            &d,
                            None,
                            None,
                        );
                    }
                }
            }
        }

        let capacity = case.capacity.max(1) as usize;
        let cache = Arc::new(BlsCache::new(NonZeroUsize::new(capacity).unwrap()));
        let kk = Arc::new(k);

        // ---- prior cache history: sequential prefix, as one simulated thread ----
        if !case.prefix.is_empty() {
            let script = case.prefix.clone();
            let (pc, pb, pt, pk) = (cache.clone(), built.clone(), truths.clone(), kk.clone());
            let body: Box<dyn FnOnce() -> Vec<PartyResult> + Send + 'static> =
                Box::new(move || script.iter().map(|p| run_party(p, &pc, &pb, &pt, &pk, flags)).collect());
            let sim = sched::run(vec![body], &Strategy::Explicit { decisions: vec![] }, 400 + 40 * case.prefix.len(), || None);
            let rs = match sim.outcome {
                Outcome::Done(mut r) => r.remove(0),
                Outcome::Deadlock(s) => return out(Some(viol("deadlock:sequential".into(), 0, s)), &d, None, None),
                Outcome::Stall(s) => return out(Some(viol("stall:sequential".into(), 0, s)), &d, None, None),
                Outcome::Invariant { step, what } => return out(Some(viol("capacity_exceeded:sequential".into(), step, what)), &d, None, None),
            };
            let rs = match rs {
                Ok(r) => r,
                Err(e) => return out(Some(viol("panic:prefix".into(), 0, e)), &d, None, None),
            };
            for (i, r) in rs.iter().enumerate() {
                d.str(&format!("{r:?}"));
                if let Some((sig, detail)) = judge(&case.prefix[i], r, &truths, case, "warm_up") {
                    return out(Some(viol(sig, i, detail)), &d, None, None);
                }
            }
        }

        // ---- concurrent phase ----
        let mut bodies: Vec<Box<dyn FnOnce() -> Vec<PartyResult> + Send + 'static>> = vec![];
        for script in &case.threads {
            let script = script.clone();
            let (pc, pb, pt, pk) = (cache.clone(), built.clone(), truths.clone(), kk.clone());
            bodies.push(Box::new(move || {
                let mut rs = vec![];
                for (i, p) in script.iter().enumerate() {
                    if i > 0 {
                        sched::yield_between_ops();
                    }
                    rs.push(run_party(p, &pc, &pb, &pt, &pk, flags));
                }
                rs
            }));
        }
        let nconds: usize = delivered.iter().map(|dl| dl.spends.iter().map(|s| s.conds.len()).sum::<usize>()).max().unwrap_or(0);
        let budget = 100 + 6 * case.threads.iter().map(|t| t.len() * (2 * nconds + 4)).sum::<usize>();
        let inv_cache = cache.clone();
        let sim = sched::run(bodies, &case.strategy, budget, || {
            let n = inv_cache.len();
            if n > capacity {
                Some(format!("cache holds {n} entries, capacity is {capacity}"))
            } else {
                None
            }
        });
        c.add("steps", sim.stats.decisions);
        c.add("sched.context_switches", sim.stats.context_switches);
        c.add("sched.lock_acquisitions_seen", sim.stats.acquisitions);
        c.add("fault.preempted_between_lookup_and_put", sim.stats.midop_preemptions);
        if capacity < 4 {
            c.inc("fault.capacity_pressure_runs");
        }
        for b in &sim.decisions {
            d.u64(u64::from(*b));
        }
        let mut resolved = case.clone();
        resolved.strategy = Strategy::Explicit { decisions: sim.decisions.clone() };
        let step = sim.decisions.len();
        let results = match sim.outcome {
            Outcome::Done(r) => r,
            Outcome::Deadlock(s) => return out(Some(viol("deadlock".into(), step, s)), &d, None, Some(resolved)),
            Outcome::Stall(s) => return out(Some(viol("stall".into(), step, s)), &d, None, Some(resolved)),
            Outcome::Invariant { step, what } => return out(Some(viol("capacity_exceeded:during_concurrent_phase".into(), step, what)), &d, None, Some(resolved)),
        };
        let mut parties_touching = 0;
        for (t, r) in results.iter().enumerate() {
            match r {
                Err(e) => return out(Some(viol("panic:simulated_party".into(), step, format!("thread {t}: {e}"))), &d, None, Some(resolved)),
                Ok(rs) => {
                    if !rs.is_empty() {
                        parties_touching += 1;
                    }
                    for (i, r) in rs.iter().enumerate() {
                        d.str(&format!("{r:?}"));
                        if let PartyResult::Pre { fed, .. } = r {
                            c.add("prevalidation_pairings_fed_into_cache", *fed as u64);
                        }
                        if let Some((sig, detail)) = judge(&case.threads[t][i], r, &truths, case, "concurrent") {
                            return out(Some(viol(sig, step, format!("thread {t} op {i}: {detail}"))), &d, None, Some(resolved));
                        }
                    }
                }
            }
        }

        // ---- sweep: every bundle once more through the (now warm, possibly poisoned) cache ----
        {
            let (pc, pb, pt, pk) = (cache.clone(), built.clone(), truths.clone(), kk.clone());
            let n = built.len();
            let body: Box<dyn FnOnce() -> (usize, Vec<PartyResult>) + Send + 'static> = Box::new(move || {
                let len = pc.len();
                let rs = sweep_parties(n).iter().map(|p| run_party(p, &pc, &pb, &pt, &pk, flags)).collect();
                (len, rs)
            });
            let sweep = sched::run(vec![body], &Strategy::Explicit { decisions: vec![] }, 400 + 120 * n, || None);
            match sweep.outcome {
                Outcome::Done(mut r) => match r.remove(0) {
                    Ok((len, rs)) => {
                        if len > capacity {
                            return out(Some(viol("capacity_exceeded:after_threads".into(), step, format!("len {len} > capacity {capacity}"))), &d, None, Some(resolved));
                        }
                        let sp = sweep_parties(n);
                        for (i, r) in rs.iter().enumerate() {
                            c.inc("sweep.validations");
                            if let Some((sig, detail)) = judge(&sp[i], r, &truths, case, "sweep") {
                                return out(Some(viol(sig, step, detail)), &d, None, Some(resolved));
                            }
                        }
                    }
                    Err(e) => return out(Some(viol("panic:sweep".into(), step, e)), &d, None, Some(resolved)),
                },
                Outcome::Deadlock(s) => return out(Some(viol("deadlock:sweep".into(), step, s)), &d, None, Some(resolved)),
                Outcome::Stall(s) => return out(Some(viol("stall:sweep".into(), step, s)), &d, None, Some(resolved)),
                Outcome::Invariant { step, what } => return out(Some(viol("capacity_exceeded:sweep".into(), step, what)), &d, None, Some(resolved)),
            }
        }

        let nontrivial = if parties_touching >= 2 && sim.stats.threads_with_acquisitions >= 2 {
            let mut s = Digest::new();
            for b in &sim.decisions {
                s.u64(u64::from(*b));
            }
            for b in &case.bundles {
                s.str(tamper_name(&b.tamper));
                let mut ops: Vec<u8> = b.spends.iter().flat_map(|sp| sp.conds.iter().map(|c| c.opcode)).collect();
                ops.sort_unstable();
                s.bytes(&ops);
            }
            Some(s.finish())
        } else {
            None
        };
        out(None, &d, nontrivial, Some(resolved))
    }
}

/// class boundaries three times out of four, otherwise a value of uniformly random bit length
/// (bytes like 0x80ff or 0xff00 inside a class, where a sign byte is or is not needed)
fn pick_amount(rng: &mut Rng) -> u64 {
    if rng.chance(3, 4) {
        *rng.pick(&AMOUNTS)
    } else {
        let shift = rng.below(64);
        rng.next_u64() >> shift
    }
}

const AMOUNTS: [u64; 18] = [
    0,
    1,
    0x7f,
    0x80,
    0xff,
    0x7fff,
    0x8000,
    0x7f_ffff,
    0x80_0000,
    0x7fff_ffff,
    0x8000_0000,
    0x7f_ffff_ffff,
    0x80_0000_0000,
    0x7fff_ffff_ffff,
    0x8000_0000_0000,
    0x7fff_ffff_ffff_ffff,
    0x8000_0000_0000_0000,
    u64::MAX,
];

fn gen_msg(rng: &mut Rng, d: &[[u8; 32]; 7]) -> Vec<u8> {
    match rng.below(12) {
        0 | 1 => vec![],
        2 => vec![rng.below(256) as u8],
        3 | 4 => rng.bytes(32),
        5 => rng.bytes(31),
        6 => {
            let n = 33 + rng.usize_below(40);
            rng.bytes(n)
        }
        // the tail of a domain constant (1-31 bytes): not a forbidden suffix
        7 => {
            let k = d[rng.usize_below(7)];
            let n = 1 + rng.usize_below(31);
            k[32 - n..].to_vec()
        }
        // ends in all but the first byte of a constant: a near miss
        8 => {
            let k = d[rng.usize_below(7)];
            let n = rng.usize_below(8);
            let mut m = rng.bytes(n);
            m.extend_from_slice(&k[1..]);
            m
        }
        // long messages, up to the 1024 byte limit
        9 => {
            let n = *rng.pick(&[255usize, 256, 1000, 1023, 1024]);
            rng.bytes(n)
        }
        _ => b"hello".to_vec(),
    }
}

fn gen_bundle(rng: &mut Rng, parent_counter: &mut u64, tamper_pct: u64, d: &[[u8; 32]; 7]) -> BundleSpec {
    // one bundle in 40 spends nothing at all: then no pair is due and only the identity
    // signature is valid
    let nspends = if rng.chance(1, 40) {
        0
    } else {
        match rng.below(6) {
            0..=2 => 1,
            3 | 4 => 2,
            _ => 3,
        }
    };
    let mut spends = vec![];
    // swarm: a per-bundle subset of opcodes
    let mut ops: Vec<u8> = (43u8..=50).filter(|_| rng.chance(1, 2)).collect();
    if ops.is_empty() {
        ops.push(50);
    }
    let shared_amount = pick_amount(rng);
    for _ in 0..nspends {
        *parent_counter += 1;
        let nconds = match rng.below(80) {
            0..=9 => 0,
            10..=49 => 1,
            50..=69 => 2,
            70..=78 => 3,
            _ => rng.range(4, 12) as usize,
        };
        let mut conds: Vec<CondSpec> = vec![];
        for _ in 0..nconds {
            if !conds.is_empty() && rng.chance(1, 6) {
                // the same condition again: the pair must then be signed twice
                let c = conds[rng.usize_below(conds.len())].clone();
                conds.push(c);
                continue;
            }
            // rarely a key nobody can sign for: the point at infinity or bytes that are not a point
            let key = match rng.below(40) {
                0 => KeySpec::Infinity,
                1 => KeySpec::Garbage(rng.below(256)),
                2 | 3 => KeySpec::Shifted(rng.below(3) as u8),
                _ => KeySpec::Pool(rng.below(3) as u8),
            };
            conds.push(CondSpec { opcode: *rng.pick(&ops), key, msg: hex::encode(gen_msg(rng, d)), extra_args: if rng.chance(1, 15) { 1 + rng.below(2) as u8 } else { 0 } });
        }
        let amount = if rng.chance(1, 3) { shared_amount } else { pick_amount(rng) };
        // sometimes the same parent as the previous spend, with a different amount
        let parent_seed = match spends.last() {
            Some(prev) if rng.chance(1, 8) => {
                let p: &SpendSpec = prev;
                // never the same (parent, amount) twice: that would be the same coin
                if spends.iter().any(|x: &SpendSpec| x.parent_seed == p.parent_seed && x.amount == amount) {
                    *parent_counter
                } else {
                    p.parent_seed
                }
            }
            _ => *parent_counter,
        };
        let nf = match rng.below(8) {
            0..=4 => 0,
            5 | 6 => 1,
            _ => rng.range(2, 3),
        };
        let fillers: Vec<(u8, u8)> = (0..nf).map(|_| (rng.below(conds.len() as u64 + 1) as u8, rng.below(7) as u8)).collect();
        spends.push(SpendSpec { parent_seed, amount, conds, quoted: rng.chance(1, 3), fillers });
    }
    let total: usize = spends.iter().map(|s| s.conds.len()).sum();
    let tamper = if nspends == 0 && rng.chance(1, 2) {
        // a signature share for nothing (or somebody else's signature) on a bundle without spends
        if rng.chance(2, 3) {
            Tamper::ExtraSig { key: rng.below(NKEYS as u64) as u8, msg_seed: rng.below(1000) }
        } else {
            Tamper::ReplaySignature { from: rng.below(4) as u8 }
        }
    } else if rng.below(100) < tamper_pct {
        let cond = rng.below(total.max(1) as u64) as u8;
        match rng.below(17) {
            14 | 15 => Tamper::ReplaySignature { from: rng.below(4) as u8 },
            16 => Tamper::IdentitySignature,
            0 => Tamper::DropSig { cond },
            1 => Tamper::ExtraSig { key: rng.below(NKEYS as u64) as u8, msg_seed: rng.below(1000) },
            2 => Tamper::FlipMsgByte { cond, pos: rng.below(64) as u16 },
            3 => Tamper::SwapKey { cond, key: KeySpec::Pool(3 + rng.below(3) as u8) },
            4 => Tamper::SwapKey { cond, key: if rng.chance(1, 2) { KeySpec::Infinity } else { KeySpec::Garbage(rng.below(256)) } },
            5 | 6 => Tamper::ChangeAmount { spend: rng.below(nspends.max(1) as u64) as u8, amount: pick_amount(rng) },
            7 => Tamper::ChangeParent { spend: rng.below(nspends.max(1) as u64) as u8 },
            8 => Tamper::SwapOpcode { cond, opcode: 43 + rng.below(8) as u8 },
            9 => Tamper::WrongDomain { cond, opcode: 43 + rng.below(8) as u8 },
            _ => Tamper::UnsafeSuffix { cond, which: rng.below(14) as u8 },
        }
    } else {
        Tamper::None
    };
    BundleSpec { spends, tamper }
}

fn gen_party(rng: &mut Rng, nbundles: usize) -> Party {
    let bundle = rng.usize_below(nbundles) as u8;
    match rng.below(11) {
        10 => Party::DeferredSignature { bundle, legacy: rng.chance(1, 2), via: rng.below(4) as u8 },
        0..=2 => Party::ParseSpends { bundle },
        3 | 4 => Party::RunGenerator { bundle },
        5 => Party::RunGeneratorLegacy { bundle },
        6..=8 => Party::PreValidate { bundle, feed: rng.chance(4, 5) },
        _ => Party::Evict { bundle },
    }
}

impl Engine for C05 {
    type Case = Case;
    fn id(&self) -> &'static str {
        "C05"
    }
    fn default_runs(&self, tier: Tier) -> u64 {
        match tier {
            Tier::Quick => 5_000,
            Tier::Thorough => 200_000,
        }
    }
    fn init(&self) {
        sched::install_hook();
        let _ = pool();
    }
    fn info(&self) -> EngineInfo {
        EngineInfo {
            engine: "schedsim",
            rule: "1-2 bundles of 1-3 spends (puzzle `1`) carrying 0-3 AGG_SIG conditions over the 8 opcodes, amounts from every encoding-length class, per-run random domain constants; a wallet signs with the real make_aggsig_final_message, a channel applies at most one tampering per bundle, and 2-3 parties (parse_spends and run_block_generator2 with the shared cache, validate_clvm_and_signature feeding its pairings back into the cache, an evictor) run as simulated threads on one real BlsCache of capacity 1-64 after a seeded warm-up, under a seeded scheduler that decides every interleaving at lock granularity. A run is non-trivial if at least two parties took the cache lock; distinct = distinct (schedule, tamper kinds, opcode multisets) among those",
            components_real: vec![
                "chia_consensus::conditions::parse_spends (message construction, check_agg_sig_unsafe_message, to_key, validate_signature)",
                "chia_consensus::run_block_generator::{run_block_generator2, run_block_generator}",
                "chia_consensus::spendbundle_validation::validate_clvm_and_signature (run_spendbundle underneath)",
                "chia_consensus::make_aggsig_final_message::make_aggsig_final_message",
                "chia_bls::BlsCache (hooked Mutex), aggregate_verify_gt, sign, aggregate (blst)",
            ],
            components_stub: vec![
                "scheduler and hooked Mutex wrapper",
                "wallet / channel / bundle generator",
                "reference rule table for the 8 AGG_SIG message kinds (independent of conditions.rs and of the helper)",
            ],
            assumptions: vec![
                "what the schedule search decides is cache / path independence; a change to message construction is caught by the oracle, not by the schedules",
                "expected verdict is computed from the bundle as delivered: tampering that reaches no signed text is expected to be accepted",
                "only accept/reject is compared, not error codes",
                "blst is trusted",
            ],
            fault_kinds: vec![
                "tamper.drop_signature",
                "tamper.extra_signature",
                "tamper.flip_message_byte",
                "tamper.swap_key",
                "tamper.change_amount",
                "tamper.change_parent",
                "tamper.swap_opcode",
                "tamper.wrong_domain_constant",
                "tamper.unsafe_message_with_domain_suffix",
                "tamper.signature_of_another_bundle",
                "tamper.identity_signature",
                "preempted_between_lookup_and_put",
                "capacity_pressure_runs",
            ],
        }
    }

    fn generate(&self, rng: &mut Rng, tier: Tier) -> Case {
        let deep = tier == Tier::Thorough && rng.chance(1, 4);
        let nbundles = if deep { rng.range(2, 3) as usize } else if rng.chance(1, 2) { 2 } else { 1 };
        let mut pc = rng.below(1 << 40);
        let tamper_pct = *rng.pick(&[0u64, 30, 60]);
        let constants_seed = rng.next_u64();
        let dconst = domain_constants(constants_seed);
        let mut bundles: Vec<BundleSpec> = (0..nbundles).map(|_| gen_bundle(rng, &mut pc, tamper_pct, &dconst)).collect();
        // near-collisions between the bundles that share the cache: a second bundle that is
        // the first one on another coin, or the first one with one opcode changed (most of the
        // (key, message) pairs are then equal or differ in one appended attribute only)
        if bundles.len() >= 2 && rng.chance(1, 2) {
            let mut twin = bundles[0].clone();
            twin.tamper = Tamper::None;
            match rng.below(3) {
                0 => {
                    for sp in twin.spends.iter_mut() {
                        pc += 1;
                        sp.parent_seed = pc;
                    }
                }
                1 => {
                    for sp in twin.spends.iter_mut() {
                        pc += 1;
                        sp.parent_seed = pc;
                        for c in sp.conds.iter_mut() {
                            if rng.chance(1, 2) {
                                c.opcode = 43 + rng.below(8) as u8;
                            }
                        }
                    }
                }
                _ => {
                    for sp in twin.spends.iter_mut() {
                        pc += 1;
                        sp.parent_seed = pc;
                        sp.amount = pick_amount(rng);
                    }
                }
            }
            if rng.chance(1, 3) {
                twin.tamper = Tamper::ReplaySignature { from: 0 };
            }
            bundles[1] = twin;
        }
        let nthreads = if deep { rng.range(3, 4) as usize } else { rng.range(2, 3) as usize };
        let threads: Vec<Vec<Party>> = (0..nthreads)
            .map(|_| {
                let n = if deep { rng.range(2, 3) as usize } else { rng.range(1, 2) as usize };
                (0..n).map(|_| gen_party(rng, nbundles)).collect()
            })
            .collect();
        // a peer submits a bundle again: one thread in five goes on with one or two more
        // validations of the bundle it started with, through the mempool or the deferred paths
        let mut threads = threads;
        for th in threads.iter_mut() {
            if !th.is_empty() && rng.chance(1, 5) {
                let bundle = party_bundle(&th[0]) as u8;
                for _ in 0..rng.range(1, 2) {
                    th.push(match rng.below(4) {
                        0 | 1 => Party::PreValidate { bundle, feed: rng.chance(1, 2) },
                        2 => Party::DeferredSignature { bundle, legacy: rng.chance(1, 2), via: rng.below(4) as u8 },
                        _ => Party::ParseSpends { bundle },
                    });
                }
            }
        }
        let nprefix = match rng.below(3) {
            0 => 0,
            1 => 1,
            _ => 2,
        };
        let prefix = (0..nprefix).map(|_| gen_party(rng, nbundles)).collect();
        let nconds: usize = bundles.iter().map(|b| b.spends.iter().map(|s| s.conds.len()).sum::<usize>()).sum();
        let strategy = gen_strategy(rng, (nthreads * (2 * nconds + 4)) as u32);
        Case {
            constants_seed,
            capacity: *rng.pick(&[1u32, 2, 3, 64]),
            cost_conditions: rng.chance(1, 2),
            mempool_visitor: rng.chance(1, 3),
            node_sharing: if rng.chance(1, 2) { 0 } else { rng.range(1, 3) as u8 },
            extra_flags: if rng.chance(1, 3) { rng.below(4) as u8 } else { 0 },
            era: if rng.chance(1, 2) { 0 } else { 1 + rng.below(3) as u8 },
            bundles,
            prefix,
            threads,
            strategy,
            no_cache_paths: rng.chance(1, 2),
        }
    }

    fn execute(&self, case: &Case, _ctx: &WorkerCtx, counters: &mut Counters) -> RunOutput<Case> {
        self.exec(case, counters)
    }

    fn shrink(&self, case: &Case) -> Vec<Case> {
        let mut out = vec![];
        if case.threads.len() > 1 {
            for t in 0..case.threads.len() {
                let mut c = case.clone();
                c.threads.remove(t);
                if let Strategy::Explicit { decisions } = &case.strategy {
                    c.strategy = Strategy::Explicit {
                        decisions: decisions.iter().filter(|x| **x as usize != t).map(|x| if *x as usize > t { x - 1 } else { *x }).collect(),
                    };
                }
                out.push(c);
            }
        }
        for p in removal_candidates(&case.prefix) {
            let mut c = case.clone();
            c.prefix = p;
            out.push(c);
        }
        for t in 0..case.threads.len() {
            if case.threads[t].len() > 1 {
                for i in 0..case.threads[t].len() {
                    let mut c = case.clone();
                    c.threads[t].remove(i);
                    out.push(c);
                }
            }
        }
        if case.bundles.len() > 1 {
            // keep only one bundle; parties address bundles modulo the count
            for keep in 0..case.bundles.len() {
                let mut c = case.clone();
                c.bundles = vec![case.bundles[keep].clone()];
                out.push(c);
            }
        }
        if let Strategy::Explicit { decisions } = &case.strategy {
            for dcs in shrink_decisions(decisions) {
                let mut c = case.clone();
                c.strategy = Strategy::Explicit { decisions: dcs };
                out.push(c);
            }
        }
        for (bi, b) in case.bundles.iter().enumerate() {
            if b.spends.len() > 1 {
                for s in 0..b.spends.len() {
                    let mut c = case.clone();
                    c.bundles[bi].spends.remove(s);
                    out.push(c);
                }
            }
            for (si, s) in b.spends.iter().enumerate() {
                for ci in 0..s.conds.len() {
                    let mut c = case.clone();
                    c.bundles[bi].spends[si].conds.remove(ci);
                    out.push(c);
                }
                if !s.fillers.is_empty() {
                    let mut c = case.clone();
                    c.bundles[bi].spends[si].fillers.clear();
                    out.push(c);
                }
                if s.amount != 1 {
                    let mut c = case.clone();
                    c.bundles[bi].spends[si].amount = 1;
                    out.push(c);
                }
            }
            if b.tamper != Tamper::None {
                let mut c = case.clone();
                c.bundles[bi].tamper = Tamper::None;
                out.push(c);
            }
        }
        if case.no_cache_paths {
            let mut c = case.clone();
            c.no_cache_paths = false;
            out.push(c);
        }
        if case.era != 0 {
            let mut c = case.clone();
            c.era = 0;
            out.push(c);
        }
        out
    }

    fn extra_coverage(&self, c: &Counters) -> Value {
        let g = |k: &str| c.map.get(k).copied().unwrap_or(0);
        json!({
            "scheduling_decisions": g("steps"),
            "context_switches": g("sched.context_switches"),
            "lock_sites_seen": g("sched.lock_acquisitions_seen"),
            "distinct_interleavings": "distinct_nontrivial counts distinct (schedule, tamper kinds, opcode multisets) among runs where at least two parties took the cache lock",
            "simulated_time": "n/a (no clock); simulated_steps = scheduling decisions",
        })
    }
}
