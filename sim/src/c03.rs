//! C03 — time-lock aggregation and checking vs per-assertion semantics (clocksim).
//!
//! A simulated chain (height, timestamp, coin store with confirmation points)
//! drives a mempool that parses a bundle once (real `parse_spends` +
//! `OwnedSpendBundleConditions::from`) and re-checks it at every new chain
//! state with the real `check_time_locks(.., nowrap = true)`. The events of the
//! discrete-event loop are the lock thresholds themselves (each threshold -1,
//! +0, +1 is a timer), clock jumps to the extremes, independent advance of
//! height and time, and reorgs that move a coin's confirmation point.

use crate::core::*;
use crate::rng::{Digest, Rng};
use chia_bls::Signature;
use chia_consensus::check_time_locks::check_time_locks;
use chia_consensus::conditions::{parse_spends, EmptyVisitor, MempoolVisitor};
use chia_consensus::consensus_constants::TEST_CONSTANTS;
use chia_consensus::flags::{ConsensusFlags, MEMPOOL_MODE};
use chia_consensus::owned_conditions::OwnedSpendBundleConditions;
use chia_consensus::run_block_generator::run_block_generator2;
use chia_consensus::spendbundle_conditions::run_spendbundle;
use chia_protocol::{Bytes32, Coin, CoinRecord, CoinSpend, Program, SpendBundle};
use clvmr::serde::node_to_bytes;
use clvmr::allocator::{Allocator, NodePtr};
use serde::{Deserialize, Serialize};
use serde_json::{json, Value};
use sha2::{Digest as _, Sha256};
use std::collections::{BTreeSet, HashMap};
use std::panic::{catch_unwind, AssertUnwindSafe};

#[derive(Serialize, Deserialize, Clone, Copy, Debug, PartialEq, Eq, PartialOrd, Ord)]
pub enum Kind {
    HAbs,
    SAbs,
    HRel,
    SRel,
    BHAbs,
    BSAbs,
    BHRel,
    BSRel,
    BirthH,
    BirthS,
}

impl Kind {
    // condition opcodes as published in the consensus rules (independent of opcodes.rs)
    fn opcode(self) -> u8 {
        match self {
            Kind::SRel => 80,
            Kind::SAbs => 81,
            Kind::HRel => 82,
            Kind::HAbs => 83,
            Kind::BSRel => 84,
            Kind::BSAbs => 85,
            Kind::BHRel => 86,
            Kind::BHAbs => 87,
            Kind::BirthS => 74,
            Kind::BirthH => 75,
        }
    }
    fn is_height(self) -> bool {
        matches!(self, Kind::HAbs | Kind::HRel | Kind::BHAbs | Kind::BHRel | Kind::BirthH)
    }
    fn width(self) -> usize {
        if self.is_height() {
            4
        } else {
            8
        }
    }
    fn is_relative_or_birth(self) -> bool {
        matches!(
            self,
            Kind::HRel | Kind::SRel | Kind::BHRel | Kind::BSRel | Kind::BirthH | Kind::BirthS
        )
    }
    fn name(self) -> &'static str {
        match self {
            Kind::HAbs => "height_abs",
            Kind::SAbs => "seconds_abs",
            Kind::HRel => "height_rel",
            Kind::SRel => "seconds_rel",
            Kind::BHAbs => "before_height_abs",
            Kind::BSAbs => "before_seconds_abs",
            Kind::BHRel => "before_height_rel",
            Kind::BSRel => "before_seconds_rel",
            Kind::BirthH => "birth_height",
            Kind::BirthS => "birth_seconds",
        }
    }
}

const ALL_KINDS: [Kind; 10] = [
    Kind::HAbs,
    Kind::SAbs,
    Kind::HRel,
    Kind::SRel,
    Kind::BHAbs,
    Kind::BSAbs,
    Kind::BHRel,
    Kind::BSRel,
    Kind::BirthH,
    Kind::BirthS,
];

#[derive(Serialize, Deserialize, Clone, Debug, PartialEq)]
pub struct Cond {
    pub kind: Kind,
    /// raw atom, hex
    pub arg: String,
    /// number of extra trailing arguments (ignored unless STRICT_ARGS_COUNT is set, then invalid)
    #[serde(default)]
    pub extra_args: u8,
}

#[derive(Serialize, Deserialize, Clone, Debug, PartialEq)]
pub struct Spend {
    /// Some(i): this spend's coin was created by spend i of the same bundle (ephemeral)
    pub parent_spend: Option<usize>,
    pub parent_seed: u64,
    pub puzzle_seed: u64,
    pub amount: u64,
    pub conds: Vec<Cond>,
    pub remarks: u8,
    /// other conditions interleaved with the locks: (position among the lock conditions, kind)
    /// kind 0 REMARK, 1 CREATE_COIN_ANNOUNCEMENT, 2 AGG_SIG_UNSAFE, 3 ASSERT_MY_AMOUNT (true),
    /// 4 ASSERT_EPHEMERAL, 5 RESERVE_FEE 0
    #[serde(default)]
    pub fillers: Vec<(u8, u8)>,
    /// Some(x): this spend also emits a CREATE_COIN with the puzzle hash and amount of the
    /// ephemeral coin spent by spend x, although it is not x's parent — a second, unrelated
    /// output that only shares (puzzle hash, amount) with the ephemeral coin
    #[serde(default)]
    pub decoy_for: Option<usize>,
    /// only with a parent link. Non-zero: the coin's parent id is the coin id of spend
    /// `parent_spend`, but that spend does not create it — 1: it creates nothing for us, 2: it
    /// creates a coin of the same amount with another puzzle hash. The coin is then an ordinary
    /// confirmed coin (not ephemeral): relative and birth assertions are allowed and must be
    /// evaluated against its coin record.
    #[serde(default)]
    pub orphan: u8,
}

impl Spend {
    fn is_ephemeral(&self) -> bool {
        self.parent_spend.is_some() && self.orphan == 0
    }
}

#[derive(Serialize, Deserialize, Clone, Debug, PartialEq)]
pub enum Ev {
    /// a new peak whose previous transaction block height is this
    H(u32),
    /// a new peak timestamp
    T(u64),
    /// reorg: the coin spent by `spend` is now confirmed at (h, t)
    Birth { spend: usize, h: u32, t: u64 },
}

#[derive(Serialize, Deserialize, Clone, Debug)]
pub struct Case {
    pub mempool_visitor: bool,
    /// 0: no flags, 1: COST_CONDITIONS, 2: MEMPOOL_MODE, 3: MEMPOOL_MODE|COST_CONDITIONS, 4: NO_UNKNOWN_CONDS,
    /// 5: LIMIT_SPENDS|COST_CONDITIONS, 6: COST_CONDITIONS with signature validation on (when no AGG_SIG filler)
    pub flagset: u8,
    pub spends: Vec<Spend>,
    pub h0: u32,
    pub t0: u64,
    pub births: Vec<(u32, u64)>,
    pub events: Vec<Ev>,
    /// equal conditions of different spends are one and the same node of the tree handed
    /// to parse_spends (as after back-reference decoding or interning of a generator)
    #[serde(default)]
    pub share_nodes: bool,
    /// this many ordinary spends without any condition (confirmed coins, distinct parents) come
    /// before the spends above in the bundle, so that the interesting spends sit at positions
    /// around 2^8 and 2^16. Ignored beyond the block limit when the flag set limits spends.
    #[serde(default)]
    pub pad_before: u32,
    /// every coin's puzzle is the atom `1` (so all puzzle hashes are its tree hash and the
    /// solution is the condition list), and the conditions are additionally obtained by running
    /// a quoted generator through run_block_generator2 and a spend bundle through
    /// run_spendbundle; each of the three results is checked at every chain state
    #[serde(default)]
    pub via_puzzles: bool,
}

/// number of padding spends actually used (a bundle above MAX_SPENDS_PER_BLOCK is rejected for
/// a reason that has nothing to do with time locks when LIMIT_SPENDS is set)
fn effective_pad(case: &Case) -> usize {
    let pad = case.pad_before as usize;
    if flags_of(case).contains(ConsensusFlags::LIMIT_SPENDS) {
        pad.min(6000usize.saturating_sub(case.spends.len()))
    } else {
        pad
    }
}

fn pad_parent(i: usize) -> [u8; 32] {
    seed32(b"padding-parent", i as u64)
}

fn pad_puzzle() -> [u8; 32] {
    seed32(b"padding-puzzle", 0)
}

// ---------------------------------------------------------------- reference

#[derive(Clone, Copy, Debug, PartialEq)]
enum Cls {
    Malformed,
    Neg,
    Over,
    Val(u64),
}

/// Independent statement of how a condition integer is read: empty = 0, top
/// bit set = negative, a leading zero byte is only allowed in front of a byte
/// with the top bit set, more than `width` significant bytes = too large.
fn classify(arg: &[u8], width: usize) -> Cls {
    if arg.is_empty() {
        return Cls::Val(0);
    }
    if arg[0] & 0x80 != 0 {
        return Cls::Neg;
    }
    let mut sig = arg;
    if arg[0] == 0 {
        if arg.len() == 1 || arg[1] & 0x80 == 0 {
            return Cls::Malformed;
        }
        sig = &arg[1..];
    }
    if sig.len() > width {
        return Cls::Over;
    }
    let mut v = 0u64;
    for b in sig {
        v = (v << 8) | u64::from(*b);
    }
    Cls::Val(v)
}

#[derive(Clone, Copy, Debug)]
struct State {
    h: u32,
    t: u64,
}

/// Does this single assertion hold, by its arithmetic definition?
fn holds(kind: Kind, cls: Cls, st: State, bh: u32, bt: u64) -> bool {
    let sat32 = |b: u32, n: u64| -> u32 { (u64::from(b) + n).min(u64::from(u32::MAX)) as u32 };
    let sat64 = |b: u64, n: u64| -> u64 { b.checked_add(n).unwrap_or(u64::MAX) };
    match (kind, cls) {
        (_, Cls::Malformed) => false,
        // "not before" kinds: a negative bound always holds, a bound beyond the type never does
        (Kind::HAbs | Kind::SAbs | Kind::HRel | Kind::SRel, Cls::Neg) => true,
        (Kind::HAbs | Kind::SAbs | Kind::HRel | Kind::SRel, Cls::Over) => false,
        // "before" kinds: the reverse
        (Kind::BHAbs | Kind::BSAbs | Kind::BHRel | Kind::BSRel, Cls::Neg) => false,
        (Kind::BHAbs | Kind::BSAbs | Kind::BHRel | Kind::BSRel, Cls::Over) => true,
        (Kind::BirthH | Kind::BirthS, Cls::Neg | Cls::Over) => false,
        (Kind::HAbs, Cls::Val(v)) => u64::from(st.h) >= v,
        (Kind::SAbs, Cls::Val(v)) => st.t >= v,
        (Kind::HRel, Cls::Val(v)) => st.h >= sat32(bh, v),
        (Kind::SRel, Cls::Val(v)) => st.t >= sat64(bt, v),
        (Kind::BHAbs, Cls::Val(v)) => u64::from(st.h) < v,
        (Kind::BSAbs, Cls::Val(v)) => st.t < v,
        (Kind::BHRel, Cls::Val(v)) => st.h < sat32(bh, v),
        (Kind::BSRel, Cls::Val(v)) => st.t < sat64(bt, v),
        (Kind::BirthH, Cls::Val(v)) => u64::from(bh) == v,
        (Kind::BirthS, Cls::Val(v)) => bt == v,
    }
}

struct Reference {
    /// per spend, per cond
    cls: Vec<Vec<Cls>>,
    ephemeral: Vec<bool>,
    /// state independent rejection: a malformed integer, or a relative/birth
    /// assertion on a coin created in the same bundle
    static_reject: Option<&'static str>,
}

fn parse_hex(s: &str) -> Vec<u8> {
    hex::decode(s).unwrap_or_default()
}

impl Reference {
    fn new(case: &Case) -> Self {
        let mut cls = vec![];
        let mut ephemeral = vec![];
        let mut static_reject = None;
        for sp in &case.spends {
            let eph = sp.is_ephemeral();
            ephemeral.push(eph);
            let mut v = vec![];
            for c in &sp.conds {
                let k = classify(&parse_hex(&c.arg), c.kind.width());
                if k == Cls::Malformed && static_reject.is_none() {
                    static_reject = Some("malformed_integer");
                }
                v.push(k);
            }
            cls.push(v);
        }
        if static_reject.is_none() {
            for (i, sp) in case.spends.iter().enumerate() {
                if ephemeral[i] && sp.conds.iter().any(|c| c.kind.is_relative_or_birth()) {
                    static_reject = Some("relative_on_ephemeral");
                    break;
                }
            }
        }
        // not lock rules, but they decide whether the bundle parses at all
        if static_reject.is_none() {
            let strict = case.flagset == 2 || case.flagset == 3 || case.flagset == 8;
            for (i, sp) in case.spends.iter().enumerate() {
                if strict && sp.conds.iter().any(|c| c.extra_args > 0) {
                    static_reject = Some("extra_arguments_in_strict_mode");
                }
                if !ephemeral[i] && sp.fillers.iter().any(|f| f.1 == 4) {
                    static_reject = Some("assert_ephemeral_on_confirmed_coin");
                }
                // fillers 6 and 7 are unknown conditions (a lock opcode written with a redundant
                // leading zero byte, and a two-byte opcode): ignored, unless unknown conditions
                // are forbidden
                let no_unknown = matches!(case.flagset, 2 | 3 | 4 | 8);
                if no_unknown && sp.fillers.iter().any(|f| f.1 == 6 || f.1 == 7) {
                    static_reject = Some("unknown_condition_in_strict_mode");
                }
            }
        }
        Reference { cls, ephemeral, static_reject }
    }

    /// expected verdict in a chain state, and the first assertion that fails
    fn expected(&self, case: &Case, st: State, births: &[(u32, u64)]) -> (bool, Option<(Kind, Cls)>) {
        if self.static_reject.is_some() {
            return (false, None);
        }
        for (i, sp) in case.spends.iter().enumerate() {
            let (bh, bt) = births[i];
            for (j, c) in sp.conds.iter().enumerate() {
                if !holds(c.kind, self.cls[i][j], st, bh, bt) {
                    return (false, Some((c.kind, self.cls[i][j])));
                }
            }
        }
        (true, None)
    }

    /// Interesting heights / timestamps given the current coin births: every
    /// threshold and its neighbours, plus the extremes.
    fn thresholds(&self, case: &Case, births: &[(u32, u64)]) -> (BTreeSet<u32>, BTreeSet<u64>) {
        let mut hs: BTreeSet<u32> = BTreeSet::new();
        let mut ts: BTreeSet<u64> = BTreeSet::new();
        let mut add_h = |v: u64| {
            let v = v.min(u64::from(u32::MAX)) as u32;
            hs.insert(v);
            hs.insert(v.saturating_sub(1));
            hs.insert(v.saturating_add(1));
        };
        let mut tvals: Vec<u64> = vec![];
        for (i, sp) in case.spends.iter().enumerate() {
            let (bh, bt) = births[i];
            for (j, c) in sp.conds.iter().enumerate() {
                let Cls::Val(v) = self.cls[i][j] else { continue };
                match c.kind {
                    Kind::HAbs | Kind::BHAbs => add_h(v),
                    Kind::HRel | Kind::BHRel => add_h(u64::from(bh) + v),
                    Kind::BirthH => add_h(v),
                    Kind::SAbs | Kind::BSAbs => tvals.push(v),
                    Kind::SRel | Kind::BSRel => tvals.push(bt.checked_add(v).unwrap_or(u64::MAX)),
                    Kind::BirthS => tvals.push(v),
                }
            }
        }
        for v in tvals {
            ts.insert(v);
            ts.insert(v.saturating_sub(1));
            ts.insert(v.saturating_add(1));
        }
        hs.insert(0);
        hs.insert(u32::MAX);
        ts.insert(0);
        ts.insert(u64::MAX);
        (hs, ts)
    }

    /// Try to construct a chain state in which every assertion holds.
    fn witness(&self, case: &Case) -> Option<(State, Vec<(u32, u64)>)> {
        if self.static_reject.is_some() {
            return None;
        }
        let n = case.spends.len();
        // lower bounds on h and t from absolute assertions
        let mut lo_h: u64 = 0;
        let mut lo_t: u64 = 0;
        let mut pins: Vec<(Option<u64>, Option<u64>)> = vec![(None, None); n];
        let mut rel: Vec<(Option<u64>, Option<u64>, Option<u64>, Option<u64>)> = vec![(None, None, None, None); n]; // r_h, br_h, r_t, br_t
        for (i, sp) in case.spends.iter().enumerate() {
            for (j, c) in sp.conds.iter().enumerate() {
                let Cls::Val(v) = self.cls[i][j] else { continue };
                match c.kind {
                    Kind::HAbs => lo_h = lo_h.max(v),
                    Kind::SAbs => lo_t = lo_t.max(v),
                    Kind::BirthH => pins[i].0 = Some(v),
                    Kind::BirthS => pins[i].1 = Some(v),
                    Kind::HRel => rel[i].0 = Some(rel[i].0.map_or(v, |x| x.max(v))),
                    Kind::BHRel => rel[i].1 = Some(rel[i].1.map_or(v, |x| x.min(v))),
                    Kind::SRel => rel[i].2 = Some(rel[i].2.map_or(v, |x| x.max(v))),
                    Kind::BSRel => rel[i].3 = Some(rel[i].3.map_or(v, |x| x.min(v))),
                    _ => {}
                }
            }
        }
        for i in 0..n {
            if self.ephemeral[i] {
                continue;
            }
            match (pins[i].0, rel[i].0) {
                (Some(p), Some(r)) => lo_h = lo_h.max(p + r),
                (None, Some(r)) => lo_h = lo_h.max(r),
                _ => {}
            }
            match (pins[i].1, rel[i].2) {
                (Some(p), Some(r)) => lo_t = lo_t.max(p.checked_add(r).unwrap_or(u64::MAX)),
                (None, Some(r)) => lo_t = lo_t.max(r),
                _ => {}
            }
        }
        let h = lo_h.min(u64::from(u32::MAX)) as u32;
        let t = lo_t;
        let mut births = vec![];
        for i in 0..n {
            let bh: u32 = match (pins[i].0, rel[i].0, rel[i].1) {
                (Some(p), _, _) => p.min(u64::from(u32::MAX)) as u32,
                (None, Some(r), _) => (u64::from(h).saturating_sub(r)) as u32,
                (None, None, Some(0)) => h.saturating_add(1),
                (None, None, _) => h,
            };
            let bt: u64 = match (pins[i].1, rel[i].2, rel[i].3) {
                (Some(p), _, _) => p,
                (None, Some(r), _) => t.saturating_sub(r),
                (None, None, Some(0)) => t.saturating_add(1),
                (None, None, _) => t,
            };
            births.push((bh, bt));
        }
        let st = State { h, t };
        if self.expected(case, st, &births).0 {
            Some((st, births))
        } else {
            None
        }
    }
}

// ---------------------------------------------------------------- real system

fn sha(parts: &[&[u8]]) -> [u8; 32] {
    let mut h = Sha256::new();
    for p in parts {
        h.update(p);
    }
    h.finalize().into()
}

fn seed32(tag: &[u8], seed: u64) -> [u8; 32] {
    sha(&[tag, &seed.to_le_bytes()])
}

/// minimal big-endian two's complement encoding of an unsigned amount
fn int_atom(v: u64) -> Vec<u8> {
    if v == 0 {
        return vec![];
    }
    let b = v.to_be_bytes();
    let mut i = 0;
    while b[i] == 0 {
        i += 1;
    }
    let mut out = vec![];
    if b[i] & 0x80 != 0 {
        out.push(0);
    }
    out.extend_from_slice(&b[i..]);
    out
}

struct Built {
    parents: Vec<[u8; 32]>,
    puzzles: Vec<[u8; 32]>,
    coin_ids: Vec<[u8; 32]>,
}

fn build_ids(case: &Case) -> Built {
    let n = case.spends.len();
    // tree hash of the atom 1: sha256(1 | 0x01)
    let ph1 = sha(&[&[1u8], &[1u8]]);
    let puzzles: Vec<[u8; 32]> = (0..n)
        .map(|i| if case.via_puzzles { ph1 } else { seed32(b"ph", case.spends[i].puzzle_seed.wrapping_add(i as u64 * 7919)) })
        .collect();
    let mut parents: Vec<Option<[u8; 32]>> = vec![None; n];
    let mut coin_ids: Vec<Option<[u8; 32]>> = vec![None; n];
    // resolve in dependency order (parent_spend links form a forest; cycles are broken by treating the link as absent)
    for _round in 0..=n {
        for i in 0..n {
            if coin_ids[i].is_some() {
                continue;
            }
            let p = match case.spends[i].parent_spend {
                Some(j) if j < n && j != i => match coin_ids[j] {
                    Some(id) => Some(id),
                    None => None,
                },
                _ => Some(seed32(b"parent", case.spends[i].parent_seed)),
            };
            if let Some(p) = p {
                parents[i] = Some(p);
                coin_ids[i] = Some(sha(&[&p, &puzzles[i], &int_atom(case.spends[i].amount)]));
            }
        }
    }
    for i in 0..n {
        if coin_ids[i].is_none() {
            let p = seed32(b"parent", case.spends[i].parent_seed);
            parents[i] = Some(p);
            coin_ids[i] = Some(sha(&[&p, &puzzles[i], &int_atom(case.spends[i].amount)]));
        }
    }
    Built {
        parents: parents.into_iter().map(Option::unwrap).collect(),
        puzzles,
        coin_ids: coin_ids.into_iter().map(Option::unwrap).collect(),
    }
}

fn list(a: &mut Allocator, items: &[NodePtr]) -> NodePtr {
    let mut r = a.nil();
    for it in items.iter().rev() {
        r = a.new_pair(*it, r).unwrap();
    }
    r
}

fn build_tree(a: &mut Allocator, case: &Case, b: &Built) -> NodePtr {
    build_tree_mode(a, case, b, false)
}

/// generator = false: `(((parent puzzle_hash amount conditions) ...))` as parse_spends takes it;
/// generator = true: `(q . (((parent 1 amount conditions) ...)))`, a block generator whose
/// puzzles are the atom `1` and whose solutions are the condition lists
fn build_tree_mode(a: &mut Allocator, case: &Case, b: &Built, generator: bool) -> NodePtr {
    let n = case.spends.len();
    let mut spends = vec![];
    let mut shared: std::collections::BTreeMap<(u8, Vec<u8>, u8), NodePtr> = std::collections::BTreeMap::new();
    let pad = effective_pad(case);
    if pad > 0 {
        let ph = a.new_atom(&pad_puzzle()).unwrap();
        let am = a.new_atom(&[1]).unwrap();
        let nil = a.nil();
        for i in 0..pad {
            let p = a.new_atom(&pad_parent(i)).unwrap();
            spends.push(list(a, &[p, ph, am, nil]));
        }
    }
    for i in 0..n {
        let sp = &case.spends[i];
        let mut conds = vec![];
        for _ in 0..sp.remarks {
            let op = a.new_atom(&[1]).unwrap();
            conds.push(list(a, &[op]));
        }
        // CREATE_COIN for every spend of this bundle that names us as its parent
        for j in 0..n {
            if case.spends[j].parent_spend == Some(i) && j != i && case.spends[j].orphan != 1 {
                let op = a.new_atom(&[51]).unwrap();
                let other_ph = seed32(b"orphan-ph", case.spends[j].parent_seed.wrapping_add(j as u64 * 104_729));
                let ph = a.new_atom(if case.spends[j].orphan == 0 { &b.puzzles[j] } else { &other_ph }).unwrap();
                let am = a.new_atom(&int_atom(case.spends[j].amount)).unwrap();
                conds.push(list(a, &[op, ph, am]));
            }
        }
        // a look-alike output: same puzzle hash and amount as somebody else's ephemeral child
        if let Some(x) = sp.decoy_for {
            if x < n && x != i && matches!(case.spends[x].parent_spend, Some(p) if p != i && p < n)
                && !(0..n).any(|j| j != x && case.spends[j].parent_spend == Some(i) && b.puzzles[j] == b.puzzles[x] && case.spends[j].amount == case.spends[x].amount)
            {
                let op = a.new_atom(&[51]).unwrap();
                let ph = a.new_atom(&b.puzzles[x]).unwrap();
                let am = a.new_atom(&int_atom(case.spends[x].amount)).unwrap();
                conds.push(list(a, &[op, ph, am]));
            }
        }
        let filler = |a: &mut Allocator, kind: u8| -> NodePtr {
            match kind {
                1 => {
                    let op = a.new_atom(&[60]).unwrap();
                    let m = a.new_atom(b"announce").unwrap();
                    list(a, &[op, m])
                }
                2 => {
                    // the G1 generator as key; signatures are not validated in this engine
                    let g1: [u8; 48] = [
                        0x97, 0xf1, 0xd3, 0xa7, 0x31, 0x97, 0xd7, 0x94, 0x26, 0x95, 0x63, 0x8c, 0x4f, 0xa9, 0xac, 0x0f, 0xc3, 0x68, 0x8c, 0x4f, 0x97, 0x74, 0xb9,
                        0x05, 0xa1, 0x4e, 0x3a, 0x3f, 0x17, 0x1b, 0xac, 0x58, 0x6c, 0x55, 0xe8, 0x3f, 0xf9, 0x7a, 0x1a, 0xef, 0xfb, 0x3a, 0xf0, 0x0a, 0xdb, 0x22,
                        0xc6, 0xbb,
                    ];
                    let op = a.new_atom(&[49]).unwrap();
                    let k = a.new_atom(&g1).unwrap();
                    let m = a.new_atom(b"x").unwrap();
                    list(a, &[op, k, m])
                }
                3 => {
                    let op = a.new_atom(&[73]).unwrap();
                    let am = a.new_atom(&int_atom(sp.amount)).unwrap();
                    list(a, &[op, am])
                }
                4 => {
                    let op = a.new_atom(&[76]).unwrap();
                    list(a, &[op])
                }
                5 => {
                    let op = a.new_atom(&[52]).unwrap();
                    let z = a.nil();
                    list(a, &[op, z])
                }
                6 => {
                    // ASSERT_BEFORE_HEIGHT_ABSOLUTE 0 (never satisfiable) with the opcode written
                    // as 0x0057: not a canonical opcode, so an unknown condition, not a lock
                    let op = a.new_atom(&[0, 87]).unwrap();
                    let z = a.nil();
                    list(a, &[op, z])
                }
                7 => {
                    // a two-byte opcode whose low byte is ASSERT_HEIGHT_ABSOLUTE, argument 2^32-1
                    let op = a.new_atom(&[1, 83]).unwrap();
                    let v = a.new_atom(&[0, 0xff, 0xff, 0xff, 0xff]).unwrap();
                    list(a, &[op, v])
                }
                _ => {
                    let op = a.new_atom(&[1]).unwrap();
                    let m = a.new_atom(b"remark").unwrap();
                    list(a, &[op, m])
                }
            }
        };
        for (j, c) in sp.conds.iter().enumerate() {
            for f in sp.fillers.iter().filter(|f| f.0 as usize == j) {
                let n = filler(a, f.1);
                conds.push(n);
            }
            let key = (c.kind.opcode(), parse_hex(&c.arg), c.extra_args);
            if case.share_nodes {
                if let Some(node) = shared.get(&key) {
                    conds.push(*node);
                    continue;
                }
            }
            let op = a.new_atom(&[c.kind.opcode()]).unwrap();
            let arg = a.new_atom(&parse_hex(&c.arg)).unwrap();
            let mut items = vec![op, arg];
            for e in 0..c.extra_args {
                items.push(a.new_atom(&[0x40 + e]).unwrap());
            }
            let node = list(a, &items);
            shared.insert(key, node);
            conds.push(node);
        }
        for f in sp.fillers.iter().filter(|f| f.0 as usize >= sp.conds.len()) {
            let n = filler(a, f.1);
            conds.push(n);
        }
        let cl = list(a, &conds);
        let p = a.new_atom(&b.parents[i]).unwrap();
        let ph = if generator { a.new_atom(&[1]).unwrap() } else { a.new_atom(&b.puzzles[i]).unwrap() };
        let am = a.new_atom(&int_atom(sp.amount)).unwrap();
        spends.push(list(a, &[p, ph, am, cl]));
    }
    let sl = list(a, &spends);
    let wrapped = list(a, &[sl]);
    if generator {
        let q = a.new_atom(&[1]).unwrap();
        a.new_pair(q, wrapped).unwrap()
    } else {
        wrapped
    }
}

/// The other two ways a node obtains a bundle's conditions (only with `via_puzzles`): running a
/// block generator and running a spend bundle. Returns (path name, parse result) pairs.
fn other_paths(case: &Case, ids: &Built) -> Vec<(&'static str, Result<OwnedSpendBundleConditions, String>)> {
    let flags = flags_of(case);
    let mut out = vec![];
    let mut a = Allocator::new();
    let generator = build_tree_mode(&mut a, case, ids, true);
    let gen_bytes = node_to_bytes(&a, generator).unwrap();
    let r = run_block_generator2::<&[u8], _>(&gen_bytes, [], u64::MAX / 2, flags, &Signature::default(), None, &TEST_CONSTANTS)
        .map(|(a2, conds)| OwnedSpendBundleConditions::from(&a2, conds))
        .map_err(|e| format!("{:?}", e.error_code()));
    out.push(("run_block_generator2", r));
    // the same spends as a SpendBundle: walk the generator's spend list
    let mut coin_spends = vec![];
    let first = |a: &Allocator, n: NodePtr| match a.sexp(n) {
        clvmr::allocator::SExp::Pair(l, r) => (l, r),
        clvmr::allocator::SExp::Atom => (n, n),
    };
    let (_, rest) = first(&a, generator);
    let (mut iter, _) = first(&a, rest);
    let mut i = 0usize;
    while let clvmr::allocator::SExp::Pair(item, next) = a.sexp(iter) {
        let (_parent, r) = first(&a, item);
        let (puzzle, r) = first(&a, r);
        let (_amount, r) = first(&a, r);
        let (solution, _) = first(&a, r);
        coin_spends.push(CoinSpend::new(
            Coin::new(Bytes32::new(ids.parents[i]), Bytes32::new(ids.puzzles[i]), case.spends[i].amount),
            Program::from(node_to_bytes(&a, puzzle).unwrap()),
            Program::from(node_to_bytes(&a, solution).unwrap()),
        ));
        iter = next;
        i += 1;
    }
    let bundle = SpendBundle::new(coin_spends, Signature::default());
    let mut a3 = Allocator::new();
    let r = run_spendbundle(&mut a3, &bundle, u64::MAX / 2, flags, &TEST_CONSTANTS)
        .map(|(conds, _)| OwnedSpendBundleConditions::from(&a3, conds))
        .map_err(|e| format!("{:?}", e.error_code()));
    out.push(("run_spendbundle", r));
    out
}

fn flags_of(case: &Case) -> ConsensusFlags {
    let has_agg_sig = case.spends.iter().any(|s| s.fillers.iter().any(|f| f.1 == 2));
    match case.flagset {
        0 => ConsensusFlags::DONT_VALIDATE_SIGNATURE,
        1 => ConsensusFlags::COST_CONDITIONS | ConsensusFlags::DONT_VALIDATE_SIGNATURE,
        2 => MEMPOOL_MODE | ConsensusFlags::DONT_VALIDATE_SIGNATURE,
        3 => MEMPOOL_MODE | ConsensusFlags::COST_CONDITIONS | ConsensusFlags::DONT_VALIDATE_SIGNATURE,
        4 => ConsensusFlags::NO_UNKNOWN_CONDS | ConsensusFlags::DONT_VALIDATE_SIGNATURE,
        5 => ConsensusFlags::LIMIT_SPENDS | ConsensusFlags::COST_CONDITIONS | ConsensusFlags::DONT_VALIDATE_SIGNATURE,
        // everything a node sets after the latest forks (from the real flag derivation)
        7 => {
            let mut k = TEST_CONSTANTS.clone();
            k.hard_fork2_height = 1;
            k.soft_fork8_height = 2;
            k.soft_fork9_height = 3;
            chia_consensus::spendbundle_validation::get_flags_for_height_and_constants(10, &k) | ConsensusFlags::DONT_VALIDATE_SIGNATURE
        }
        8 => {
            let mut k = TEST_CONSTANTS.clone();
            k.hard_fork2_height = 1;
            k.soft_fork8_height = 2;
            k.soft_fork9_height = 3;
            chia_consensus::spendbundle_validation::get_flags_for_height_and_constants(10, &k) | MEMPOOL_MODE | ConsensusFlags::DONT_VALIDATE_SIGNATURE
        }
        // signature validation switched on: the identity signature is valid when there is no AGG_SIG condition
        _ if !has_agg_sig => ConsensusFlags::COST_CONDITIONS,
        _ => ConsensusFlags::COST_CONDITIONS | ConsensusFlags::DONT_VALIDATE_SIGNATURE,
    }
}

pub struct C03;

fn cls_name(c: Cls) -> &'static str {
    match c {
        Cls::Malformed => "malformed",
        Cls::Neg => "negative",
        Cls::Over => "oversized",
        Cls::Val(_) => "value",
    }
}

impl C03 {
    fn exec(&self, case: &Case, c: &mut Counters) -> (Option<Violation>, u64, Option<u64>) {
        let mut d = Digest::new();
        let reference = Reference::new(case);
        let ids = build_ids(case);
        let n = case.spends.len();

        // ---- the mempool parses the bundle once ----
        let parsed: Result<Result<OwnedSpendBundleConditions, String>, String> = catch_unwind(AssertUnwindSafe(|| {
            let mut a = Allocator::new();
            let tree = build_tree(&mut a, case, &ids);
            let flags = flags_of(case);
            let r = if case.mempool_visitor {
                parse_spends::<MempoolVisitor>(&a, tree, u64::MAX / 2, 0, flags, &Signature::default(), None, &TEST_CONSTANTS)
            } else {
                parse_spends::<EmptyVisitor>(&a, tree, u64::MAX / 2, 0, flags, &Signature::default(), None, &TEST_CONSTANTS)
            };
            match r {
                Ok(conds) => Ok(OwnedSpendBundleConditions::from(&a, conds)),
                Err(e) => Err(format!("{:?}", e.error_code())),
            }
        }))
        .map_err(|e| {
            if let Some(s) = e.downcast_ref::<String>() {
                s.clone()
            } else if let Some(s) = e.downcast_ref::<&str>() {
                (*s).to_string()
            } else {
                "panic".into()
            }
        });
        let parsed = match parsed {
            Ok(p) => p,
            Err(p) => {
                return (
                    Some(Violation { signature: "panic:parse_spends".into(), step: 0, detail: p }),
                    d.finish(),
                    None,
                )
            }
        };
        match &parsed {
            Ok(_) => {
                d.str("parse_ok");
                c.inc("bundles.parse_accepted");
            }
            Err(e) => {
                d.str(e);
                c.inc("bundles.parse_rejected");
                if e.starts_with("Impossible") {
                    c.inc("probe.parse_rejected_impossible_constraints");
                }
                if e == "EphemeralRelativeCondition" {
                    c.inc("probe.parse_rejected_relative_on_ephemeral");
                }
            }
        }
        if reference.static_reject == Some("malformed_integer") {
            c.inc("probe.bundle_with_malformed_integer");
        }
        if parsed.is_ok() && case.spends.iter().any(|s| s.parent_spend.is_some() && s.orphan != 0 && s.conds.iter().any(|c| c.kind.is_relative_or_birth())) {
            c.inc("probe.relative_lock_on_coin_whose_parent_is_spent_here_but_does_not_create_it");
        }
        let others: Vec<(&'static str, Result<OwnedSpendBundleConditions, String>)> = if case.via_puzzles && effective_pad(case) == 0 {
            c.inc("bundles.also_run_as_generator_and_spend_bundle");
            match catch_unwind(AssertUnwindSafe(|| other_paths(case, &ids))) {
                Ok(v) => v,
                Err(_) => {
                    return (
                        Some(Violation { signature: "panic:run_block_generator2_or_run_spendbundle".into(), step: 0, detail: "panic".into() }),
                        d.finish(),
                        None,
                    )
                }
            }
        } else {
            vec![]
        };

        // ---- the chain ----
        let mut st = State { h: case.h0, t: case.t0 };
        let mut births: Vec<(u32, u64)> = case.births.clone();
        births.resize(n, (0, 0));
        let mut passed = 0u32;
        let mut failed = 0u32;
        let total = case.events.len() + 1;
        // the coin store: the padding coins never change, the interesting ones are rewritten per state
        let pad = effective_pad(case);
        let mut records: HashMap<Bytes32, CoinRecord> = HashMap::with_capacity(n + pad);
        if pad > 0 {
            c.inc("probe.padded_bundles");
            c.max("max.spends_in_bundle", (n + pad) as u64);
            let ph = pad_puzzle();
            for i in 0..pad {
                let parent = pad_parent(i);
                let coin = Coin::new(Bytes32::new(parent), Bytes32::new(ph), 1);
                records.insert(
                    Bytes32::new(sha(&[&parent, &ph, &[1u8]])),
                    CoinRecord { coin, confirmed_block_index: 0, spent_block_index: 0, coinbase: false, timestamp: 0 },
                );
            }
        }
        for step in 0..total {
            if step > 0 {
                match &case.events[step - 1] {
                    Ev::H(h) => {
                        if *h < st.h {
                            c.inc("fault.clock_height_goes_back");
                        }
                        if *h == 0 || *h == u32::MAX {
                            c.inc("fault.clock_jump_to_extreme");
                        }
                        st.h = *h;
                    }
                    Ev::T(t) => {
                        if *t < st.t {
                            c.inc("fault.clock_time_goes_back");
                        }
                        if *t == 0 || *t == u64::MAX {
                            c.inc("fault.clock_jump_to_extreme");
                        }
                        st.t = *t;
                    }
                    Ev::Birth { spend, h, t } => {
                        if *spend < n {
                            births[*spend] = (*h, *t);
                            c.inc("fault.reorg_moves_coin_confirmation");
                        }
                    }
                }
            }
            c.inc("steps");
            c.max("span.max_height", u64::from(st.h));
            c.max("span.max_timestamp", st.t);
            let (exp, why) = reference.expected(case, st, &births);
            // saturation probes
            for (i, sp) in case.spends.iter().enumerate() {
                for (j, cd) in sp.conds.iter().enumerate() {
                    if let Cls::Val(v) = reference.cls[i][j] {
                        match cd.kind {
                            Kind::HRel | Kind::BHRel if u64::from(births[i].0) + v > u64::from(u32::MAX) => {
                                c.inc("probe.height_sum_saturated")
                            }
                            Kind::SRel | Kind::BSRel if births[i].1.checked_add(v).is_none() => {
                                c.inc("probe.seconds_sum_saturated")
                            }
                            _ => {}
                        }
                    }
                }
            }
            // the coin store as the node sees it in this chain state
            if parsed.is_ok() || others.iter().any(|(_, r)| r.is_ok()) {
                for i in 0..n {
                    let (bh, bt) = if reference.ephemeral[i] { (st.h.saturating_add(1), st.t) } else { births[i] };
                    let coin = Coin::new(Bytes32::new(ids.parents[i]), Bytes32::new(ids.puzzles[i]), case.spends[i].amount);
                    records.insert(
                        Bytes32::new(ids.coin_ids[i]),
                        CoinRecord { coin, confirmed_block_index: bh, spent_block_index: 0, coinbase: false, timestamp: bt },
                    );
                }
            }
            let obs: Result<bool, String> = match &parsed {
                Err(_) => Ok(false),
                Ok(conds) => {
                    match catch_unwind(AssertUnwindSafe(|| check_time_locks(&records, conds, st.h, st.t, true))) {
                        Ok(Ok(())) => Ok(true),
                        Ok(Err(e)) => {
                            d.str(&format!("{:?}", e.error_code()));
                            Ok(false)
                        }
                        Err(_) => Err("panic in check_time_locks".to_string()),
                    }
                }
            };
            let obs = match obs {
                Ok(o) => o,
                Err(p) => {
                    return (
                        Some(Violation { signature: "panic:check_time_locks".into(), step, detail: p }),
                        d.finish(),
                        None,
                    )
                }
            };
            d.u64(u64::from(obs) | (u64::from(exp) << 1));
            if exp {
                passed += 1;
                c.inc("states.expected_pass");
            } else {
                failed += 1;
                c.inc("states.expected_fail");
            }
            if obs != exp {
                let sig = if exp {
                    match &parsed {
                        Err(e) => format!("satisfiable_bundle_rejected_at_parse:{e}"),
                        Ok(_) => "state_rejected_though_every_assertion_holds".to_string(),
                    }
                } else {
                    match why {
                        Some((k, cl)) => format!("state_accepted_though_assertion_fails:{}:{}", k.name(), cls_name(cl)),
                        None => format!("accepted_despite:{}", reference.static_reject.unwrap_or("?")),
                    }
                };
                let detail = format!(
                    "height={} timestamp={} births={:?}: expected {} observed {} (parse: {})",
                    st.h,
                    st.t,
                    births,
                    if exp { "pass" } else { "fail" },
                    if obs { "pass" } else { "fail" },
                    match &parsed { Ok(_) => "accepted".to_string(), Err(e) => e.clone() }
                );
                return (Some(Violation { signature: sig, step, detail }), d.finish(), None);
            }
            // the same bundle, conditions obtained by running a generator / a spend bundle
            for (path, r) in &others {
                let obs2 = match r {
                    Err(_) => false,
                    Ok(conds) => match catch_unwind(AssertUnwindSafe(|| check_time_locks(&records, conds, st.h, st.t, true))) {
                        Ok(v) => v.is_ok(),
                        Err(_) => {
                            return (
                                Some(Violation { signature: format!("panic:check_time_locks:{path}"), step, detail: "panic".into() }),
                                d.finish(),
                                None,
                            )
                        }
                    },
                };
                c.inc("states.checked_through_generator_or_bundle");
                if obs2 != exp {
                    let sig = if exp {
                        match r {
                            Err(e) => format!("{path}:satisfiable_bundle_rejected:{e}"),
                            Ok(_) => format!("{path}:state_rejected_though_every_assertion_holds"),
                        }
                    } else {
                        match why {
                            Some((k, cl)) => format!("{path}:state_accepted_though_assertion_fails:{}:{}", k.name(), cls_name(cl)),
                            None => format!("{path}:accepted_despite:{}", reference.static_reject.unwrap_or("?")),
                        }
                    };
                    let detail = format!(
                        "height={} timestamp={} births={:?}: expected {} observed {} ({path}: {})",
                        st.h,
                        st.t,
                        births,
                        if exp { "pass" } else { "fail" },
                        if obs2 { "pass" } else { "fail" },
                        match r { Ok(_) => "accepted".to_string(), Err(e) => e.clone() }
                    );
                    return (Some(Violation { signature: sig, step, detail }), d.finish(), None);
                }
            }
        }
        let nontrivial = if passed > 0 && failed > 0 {
            let mut s = Digest::new();
            let mut shape: Vec<(usize, u8, u8, bool)> = vec![];
            for (i, sp) in case.spends.iter().enumerate() {
                for (j, cd) in sp.conds.iter().enumerate() {
                    let k = match reference.cls[i][j] {
                        Cls::Malformed => 0,
                        Cls::Neg => 1,
                        Cls::Over => 2,
                        Cls::Val(0) => 3,
                        Cls::Val(v) if v == u64::from(u32::MAX) => 4,
                        Cls::Val(u64::MAX) => 5,
                        Cls::Val(_) => 6,
                    };
                    shape.push((i, cd.kind as u8, k, reference.ephemeral[i]));
                }
            }
            shape.sort_unstable();
            for x in shape {
                s.u64(x.0 as u64);
                s.u64(u64::from(x.1));
                s.u64(u64::from(x.2));
                s.u64(u64::from(x.3));
            }
            Some(s.finish())
        } else {
            None
        };
        (None, d.finish(), nontrivial)
    }
}

fn gen_arg(rng: &mut Rng, kind: Kind, anchors: &[u64]) -> Vec<u8> {
    let w = kind.width();
    let max: u64 = if w == 4 { u64::from(u32::MAX) } else { u64::MAX };
    match rng.below(40) {
        0 | 1 => vec![],                      // zero
        2 => vec![0x80],                      // -128
        3 => vec![0xff],                      // -1
        4 => vec![0xff, 0xff],                // negative, redundant
        5 => match rng.below(3) {
            0 => vec![0x00],                  // malformed zero
            1 => vec![0x00, 0x01],            // redundant leading zero
            _ => vec![0x00, 0x7f, 0xff],      // redundant leading zero
        },
        6 | 7 => int_atom(max),               // type maximum
        8 => int_atom(max - 1),
        9 => {
            // one past the width: oversized
            let mut v = vec![0x01];
            v.extend(std::iter::repeat(0u8).take(w));
            v
        }
        10 => {
            // 9+ bytes
            let mut v = vec![0x7f];
            let extra = 8 + rng.usize_below(3);
            v.extend(rng.bytes(extra));
            v
        }
        11 => int_atom(1u64 << 31),
        12 => int_atom((1u64 << 32) - 1),
        13 => int_atom(1u64 << 32),
        14 => int_atom(1u64 << 63),
        15..=20 if !anchors.is_empty() => {
            // equal / adjacent to another value in play
            let a = *rng.pick(anchors);
            int_atom(match rng.below(3) {
                0 => a,
                1 => a.saturating_add(1),
                _ => a.saturating_sub(1),
            } .min(max))
        }
        21..=24 => int_atom(rng.below(4)),
        25 | 26 => int_atom(max - rng.below(4)),
        // anywhere between the classes: a uniformly random bit length, so every byte length and
        // both values of each encoding's top bit occur (sign byte needed or not)
        27 | 28 => {
            let shift = rng.below(64);
            int_atom((rng.next_u64() >> shift).min(if rng.chance(1, 2) { max } else { u64::MAX }))
        }
        _ => int_atom(rng.below(1000)),
    }
}

impl Engine for C03 {
    type Case = Case;
    fn id(&self) -> &'static str {
        "C03"
    }
    fn default_runs(&self, tier: Tier) -> u64 {
        match tier {
            Tier::Quick => 8_000_000,
            Tier::Thorough => 200_000_000,
        }
    }
    fn info(&self) -> EngineInfo {
        EngineInfo {
            engine: "clocksim",
            rule: "seeded bundles (1-3 spends, 0-4 lock/birth conditions each over the 10 kinds, argument atoms of every class, ephemeral parent links) parsed once by the real mempool path and re-checked by the real check_time_locks(nowrap) at every state of a simulated chain whose clock jumps between lock thresholds (+-1), extremes, and reorged coin confirmation points; each visited state is compared with an independent per-assertion evaluator. A run is non-trivial if at least one visited state is expected to pass and one to fail; distinct = distinct (spend index, kind, argument class, ephemeral) multisets among those",
            components_real: vec![
                "chia_consensus::conditions::parse_spends (EmptyVisitor and MempoolVisitor)",
                "OwnedSpendBundleConditions::from",
                "chia_consensus::run_block_generator::run_block_generator2 and spendbundle_conditions::run_spendbundle (one bundle in eight: puzzles `1`, the conditions obtained by running a quoted generator / a spend bundle, checked at every chain state like the parse_spends result)",
                "chia_consensus::check_time_locks::check_time_locks (nowrap = true)",
            ],
            components_stub: vec![
                "chain: previous transaction block height, timestamp, coin store (confirmation height/timestamp per coin)",
                "wallet: bundle generator",
                "reference: independent per-assertion evaluator with saturating sums and the ephemeral rule",
            ],
            assumptions: vec![
                "only nowrap = true (the mode the property names)",
                "chain states are arbitrary, not only reachable ones",
                "a condition integer that is not canonically encoded makes the bundle invalid; an oversized bound is beyond every chain state (never reached for 'not before', always for 'before')",
                "ephemeral coins get a coin record (next height, current timestamp) as the mempool does",
                "the cost limit is ample so CostExceeded never interferes; signatures are not validated",
            ],
            fault_kinds: vec![
                "clock_jump_to_extreme",
                "clock_height_goes_back",
                "clock_time_goes_back",
                "reorg_moves_coin_confirmation",
            ],
        }
    }

    fn generate(&self, rng: &mut Rng, tier: Tier) -> Case {
        // rarely: the interesting spends sit right at / across position 2^8 or 2^16 of a long
        // bundle (only with flag sets that do not limit the number of spends; in half of these
        // runs the bundle is re-drawn until an ephemeral coin carries a relative or birth
        // assertion, the one rule that is stated per spend *position*)
        let pad_at: u32 = if rng.chance(1, 2_000) {
            256
        } else if rng.chance(1, 30_000) {
            65_536
        } else {
            0
        };
        if pad_at == 0 {
            return self.generate_inner(rng, tier);
        }
        let want_ephemeral_lock = rng.chance(3, 4);
        let mut case = self.generate_inner(rng, tier);
        for _ in 0..300 {
            let n = case.spends.len();
            let has = case.spends.iter().enumerate().any(|(i, sp)| {
                matches!(sp.parent_spend, Some(j) if j < n && j != i) && sp.conds.iter().any(|c| c.kind.is_relative_or_birth())
            });
            if !flags_of(&case).contains(ConsensusFlags::LIMIT_SPENDS) && (!want_ephemeral_lock || has) {
                break;
            }
            case = self.generate_inner(rng, tier);
        }
        if !flags_of(&case).contains(ConsensusFlags::LIMIT_SPENDS) {
            let n = case.spends.len() as u64;
            case.pad_before = pad_at - rng.below(n + 1) as u32 + u32::from(rng.chance(1, 4));
            if case.pad_before > 10_000 {
                // every state re-checks 65 000 padding coins: keep such runs short
                case.events.truncate(12);
            }
        }
        case
    }

    fn execute(&self, case: &Case, _ctx: &WorkerCtx, counters: &mut Counters) -> RunOutput<Case> {
        let (violation, digest, nontrivial) = self.exec(case, counters);
        RunOutput { violation, digest, nontrivial, resolved: None }
    }

    fn shrink(&self, case: &Case) -> Vec<Case> {
        let mut out = vec![];
        // fewer events
        for ev in removal_candidates(&case.events) {
            let mut c = case.clone();
            c.events = ev;
            out.push(c);
        }
        // fewer spends (fix up parent links)
        if case.spends.len() > 1 {
            for i in 0..case.spends.len() {
                let mut c = case.clone();
                c.spends.remove(i);
                if i < c.births.len() {
                    c.births.remove(i);
                }
                for sp in c.spends.iter_mut() {
                    sp.parent_spend = match sp.parent_spend {
                        Some(j) if j == i => None,
                        Some(j) if j > i => Some(j - 1),
                        x => x,
                    };
                    sp.decoy_for = match sp.decoy_for {
                        Some(j) if j == i => None,
                        Some(j) if j > i => Some(j - 1),
                        x => x,
                    };
                }
                c.events = c
                    .events
                    .iter()
                    .filter_map(|e| match e {
                        Ev::Birth { spend, .. } if *spend == i => None,
                        Ev::Birth { spend, h, t } if *spend > i => Some(Ev::Birth { spend: spend - 1, h: *h, t: *t }),
                        e => Some(e.clone()),
                    })
                    .collect();
                out.push(c);
            }
        }
        // fewer conditions
        for i in 0..case.spends.len() {
            for j in 0..case.spends[i].conds.len() {
                let mut c = case.clone();
                c.spends[i].conds.remove(j);
                out.push(c);
            }
            if !case.spends[i].fillers.is_empty() {
                let mut c = case.clone();
                c.spends[i].fillers.clear();
                out.push(c);
            }
            for j in 0..case.spends[i].conds.len() {
                if case.spends[i].conds[j].extra_args > 0 {
                    let mut c = case.clone();
                    c.spends[i].conds[j].extra_args = 0;
                    out.push(c);
                }
            }
            if case.spends[i].remarks > 0 {
                let mut c = case.clone();
                c.spends[i].remarks = 0;
                out.push(c);
            }
            if case.spends[i].parent_spend.is_some() {
                let mut c = case.clone();
                c.spends[i].parent_spend = None;
                out.push(c);
            }
        }
        if case.flagset != 0 {
            let mut c = case.clone();
            c.flagset = 0;
            out.push(c);
        }
        if case.mempool_visitor {
            let mut c = case.clone();
            c.mempool_visitor = false;
            out.push(c);
        }
        if case.share_nodes {
            let mut c = case.clone();
            c.share_nodes = false;
            out.push(c);
        }
        if case.pad_before > 0 {
            for p in [0, case.pad_before / 2, case.pad_before - 1] {
                let mut c = case.clone();
                c.pad_before = p;
                out.push(c);
            }
        }
        out
    }

    fn extra_coverage(&self, c: &Counters) -> Value {
        let g = |k: &str| c.map.get(k).copied().unwrap_or(0);
        json!({
            "simulated_time_span": {
                "heights": format!("0 ..= {}", g("span.max_height")),
                "timestamps_seconds": format!("0 ..= {}", g("span.max_timestamp")),
                "note": "the clock jumps between lock thresholds; the span is the range of previous-transaction-block heights and timestamps visited"
            },
            "chain_states_visited": g("steps"),
            "states_expected_pass": g("states.expected_pass"),
            "states_expected_fail": g("states.expected_fail"),
            "distinct_interleavings": "n/a (single mempool, no concurrency; the searched space is bundles x clock/reorg event sequences)",
        })
    }
}

impl C03 {
    fn generate_inner(&self, rng: &mut Rng, tier: Tier) -> Case {
        let deep = tier == Tier::Thorough && rng.chance(1, 5);
        let nspends = if deep { rng.range(3, 5) } else { 0 };
        let nspends = if nspends > 0 { nspends as usize } else if rng.chance(1, 150) { rng.range(6, 20) as usize } else { match rng.below(10) {
            0..=4 => 1,
            5..=7 => 2,
            _ => 3,
        } };
        let mut spends: Vec<Spend> = vec![];
        let mut anchors: Vec<u64> = vec![];
        // swarm: a per-run subset of kinds
        let mut kinds: Vec<Kind> = ALL_KINDS.iter().copied().filter(|_| rng.chance(1, 2)).collect();
        if kinds.is_empty() {
            kinds.push(*rng.pick(&ALL_KINDS));
        }
        for i in 0..nspends {
            let parent_spend = if nspends > 1 && rng.chance(1, 4) {
                let j = rng.usize_below(nspends);
                if j != i { Some(j) } else { None }
            } else {
                None
            };
            let nconds = match rng.below(80) {
                0..=9 => 0,
                10..=39 => 1,
                40..=59 => 2,
                60..=69 => 3,
                70..=78 => 4,
                _ => rng.range(5, 12) as usize,
            };
            let mut conds = vec![];
            for _ in 0..nconds {
                let mut kind = *rng.pick(&kinds);
                // keep most ephemeral spends free of relative conditions so that they reach the chain
                if parent_spend.is_some() && kind.is_relative_or_birth() && rng.chance(2, 3) {
                    kind = *rng.pick(&[Kind::HAbs, Kind::SAbs, Kind::BHAbs, Kind::BSAbs]);
                }
                // sometimes exactly the condition another spend already carries
                if !spends.is_empty() && rng.chance(1, 6) {
                    let other: &Spend = &spends[rng.usize_below(spends.len())];
                    if !other.conds.is_empty() {
                        let c = other.conds[rng.usize_below(other.conds.len())].clone();
                        if !(parent_spend.is_some() && c.kind.is_relative_or_birth()) || rng.chance(1, 3) {
                            conds.push(c);
                            continue;
                        }
                    }
                }
                let arg = gen_arg(rng, kind, &anchors);
                if let Cls::Val(v) = classify(&arg, kind.width()) {
                    anchors.push(v);
                }
                conds.push(Cond { kind, arg: hex::encode(arg), extra_args: if rng.chance(1, 12) { 1 + rng.below(2) as u8 } else { 0 } });
            }
            spends.push(Spend {
                parent_spend,
                parent_seed: rng.below(1 << 20),
                puzzle_seed: rng.below(1 << 20),
                amount: if parent_spend.is_some() { 1 + rng.below(5) } else { 1000 + rng.below(1000) },
                remarks: rng.below(2) as u8,
                fillers: {
                    let nf = match rng.below(6) {
                        0..=2 => 0,
                        3 | 4 => 1,
                        _ => rng.range(2, 4),
                    };
                    (0..nf)
                        .map(|_| {
                            let pos = rng.below(conds.len() as u64 + 1) as u8;
                            let mut kind = rng.below(8) as u8;
                            // ASSERT_EPHEMERAL mostly where it is true
                            if kind == 4 && parent_spend.is_none() && rng.chance(9, 10) {
                                kind = 0;
                            }
                            (pos, kind)
                        })
                        .collect()
                },
                conds,
                decoy_for: None,
                orphan: 0,
            });
        }
        // break parent cycles (a -> b -> a): keep links only towards a spend that is not itself linked back
        for i in 0..nspends {
            if let Some(j) = spends[i].parent_spend {
                let mut cur = j;
                let mut hops = 0;
                let mut cyc = false;
                while let Some(k) = spends[cur].parent_spend {
                    hops += 1;
                    if k == i || hops > nspends {
                        cyc = true;
                        break;
                    }
                    cur = k;
                }
                if cyc {
                    spends[i].parent_spend = None;
                    spends[i].amount = 1000 + rng.below(1000);
                }
            }
        }
        // a parent id that is another spend's coin id without that spend creating the coin: not
        // ephemeral; such a spend gets relative / birth assertions more often than not
        for i in 0..nspends {
            if spends[i].parent_spend.is_some() && rng.chance(1, 6) {
                spends[i].orphan = 1 + rng.below(2) as u8;
                for f in spends[i].fillers.iter_mut() {
                    if f.1 == 4 && rng.chance(9, 10) {
                        f.1 = 0;
                    }
                }
                if rng.chance(3, 4) {
                    for _ in 0..rng.range(1, 3) {
                        let kind = *rng.pick(&[Kind::HRel, Kind::SRel, Kind::BHRel, Kind::BSRel, Kind::BirthH, Kind::BirthS]);
                        let arg = gen_arg(rng, kind, &anchors);
                        if let Cls::Val(v) = classify(&arg, kind.width()) {
                            anchors.push(v);
                        }
                        spends[i].conds.push(Cond { kind, arg: hex::encode(arg), extra_args: 0 });
                    }
                }
            }
        }
        // look-alike outputs: with three or more spends, a spend that is neither the ephemeral coin
        // nor its parent sometimes creates a coin with the same puzzle hash and amount
        if nspends >= 3 {
            for x in 0..nspends {
                if let Some(p) = spends[x].parent_spend {
                    if rng.chance(1, 3) {
                        let b = rng.usize_below(nspends);
                        if b != x && b != p && spends[b].decoy_for.is_none() {
                            spends[b].decoy_for = Some(x);
                        }
                    }
                }
            }
        }
        if rng.chance(1, 2) {
            // a parent worth at least its children (the ordinary shape)
            for i in 0..nspends {
                let need: u64 = (0..nspends).filter(|j| spends[*j].parent_spend == Some(i)).map(|j| spends[j].amount).sum();
                if spends[i].amount < need {
                    spends[i].amount = need + rng.below(3);
                }
            }
        } else {
            // consensus balances value per bundle, not per spend: an ephemeral coin may be worth
            // more than the spend that creates it as long as the removals cover the additions
            for i in 0..nspends {
                if spends[i].parent_spend.is_some() && rng.chance(1, 2) {
                    spends[i].amount = 1000 + rng.below(3000);
                }
            }
            let removals: u128 = spends.iter().map(|s| u128::from(s.amount)).sum();
            let additions: u128 = (0..nspends).filter(|j| spends[*j].parent_spend.is_some()).map(|j| u128::from(spends[j].amount)).sum::<u128>()
                + spends.iter().filter_map(|s| s.decoy_for).map(|x| u128::from(spends[x].amount)).sum::<u128>();
            if removals < additions {
                if let Some(r) = (0..nspends).find(|i| spends[*i].parent_spend.is_none()) {
                    spends[r].amount += (additions - removals) as u64 + rng.below(3);
                }
            }
        }
        let mut case = Case {
            mempool_visitor: rng.chance(1, 2),
            flagset: rng.below(9) as u8,
            spends,
            h0: 0,
            t0: 0,
            births: vec![],
            events: vec![],
            share_nodes: rng.chance(1, 3),
            pad_before: 0,
            via_puzzles: rng.chance(1, 8),
        };
        if case.via_puzzles {
            // all puzzle hashes are equal now: keep coins distinct (parents unique per spend,
            // children of one parent with distinct amounts) so that no duplicate-coin rule fires
            for (i, sp) in case.spends.iter_mut().enumerate() {
                sp.parent_seed = (sp.parent_seed << 6) | i as u64;
                if sp.parent_spend.is_some() {
                    sp.amount = 1 + i as u64;
                } else {
                    // roots: distinct from every child amount and from each other
                    sp.amount = 1000 + 64 * (sp.amount % 1000) + i as u64;
                }
            }
            // (no "a parent is worth at least its children" fix-up here: it could make two
            // children of one parent equal in amount, i.e. the same coin; consensus only requires
            // the bundle's removals to cover its additions, which always holds)
        }

        let reference = Reference::new(&case);
        // coin births relative to the asserted values
        let pick_birth_h = |rng: &mut Rng, anchors: &[u64]| -> u32 {
            match rng.below(8) {
                0 => 0,
                1 => u32::MAX,
                2 => u32::MAX - rng.below(4) as u32,
                3 | 4 if !anchors.is_empty() => {
                    let a = (*rng.pick(anchors)).min(u64::from(u32::MAX)) as u32;
                    match rng.below(3) { 0 => a, 1 => a.saturating_add(1), _ => a.saturating_sub(1) }
                }
                _ => rng.below(1000) as u32,
            }
        };
        let pick_birth_t = |rng: &mut Rng, anchors: &[u64]| -> u64 {
            match rng.below(8) {
                0 => 0,
                1 => u64::MAX,
                2 => u64::MAX - rng.below(4),
                3 | 4 if !anchors.is_empty() => {
                    let a = *rng.pick(anchors);
                    match rng.below(3) { 0 => a, 1 => a.saturating_add(1), _ => a.saturating_sub(1) }
                }
                _ => rng.below(1000),
            }
        };
        let mut births: Vec<(u32, u64)> = (0..nspends).map(|_| (pick_birth_h(rng, &anchors), pick_birth_t(rng, &anchors))).collect();
        case.births = births.clone();
        let witness = reference.witness(&case);
        let nevents = if deep { rng.range(30, 90) as usize } else { rng.range(4, 40) as usize };
        let witness_at = if witness.is_some() { Some(rng.usize_below(nevents)) } else { None };
        let (mut hs, mut ts) = reference.thresholds(&case, &births);
        let mut cur_h = *hs.iter().next().unwrap();
        let mut cur_t = *ts.iter().next().unwrap();
        if rng.chance(1, 2) {
            cur_h = *hs.iter().nth(rng.usize_below(hs.len())).unwrap();
            cur_t = *ts.iter().nth(rng.usize_below(ts.len())).unwrap();
        }
        case.h0 = cur_h;
        case.t0 = cur_t;
        let mut events = vec![];
        while events.len() < nevents {
            if Some(events.len()) == witness_at {
                let (wst, wb) = witness.clone().unwrap();
                for (i, b) in wb.iter().enumerate() {
                    if !reference.ephemeral[i] && births[i] != *b {
                        events.push(Ev::Birth { spend: i, h: b.0, t: b.1 });
                        births[i] = *b;
                    }
                }
                events.push(Ev::H(wst.h));
                events.push(Ev::T(wst.t));
                cur_h = wst.h;
                cur_t = wst.t;
                let (h2, t2) = reference.thresholds(&case, &births);
                hs = h2;
                ts = t2;
                continue;
            }
            match rng.below(16) {
                // next height event
                0..=4 => {
                    let nx = hs.range((std::ops::Bound::Excluded(cur_h), std::ops::Bound::Unbounded)).next().copied();
                    cur_h = nx.unwrap_or(0);
                    events.push(Ev::H(cur_h));
                }
                // next time event
                5..=9 => {
                    let nx = ts.range((std::ops::Bound::Excluded(cur_t), std::ops::Bound::Unbounded)).next().copied();
                    cur_t = nx.unwrap_or(0);
                    events.push(Ev::T(cur_t));
                }
                // jump to any threshold (forwards or backwards: reorg of the peak)
                10 | 11 => {
                    cur_h = *hs.iter().nth(rng.usize_below(hs.len())).unwrap();
                    events.push(Ev::H(cur_h));
                }
                12 | 13 => {
                    cur_t = *ts.iter().nth(rng.usize_below(ts.len())).unwrap();
                    events.push(Ev::T(cur_t));
                }
                // reorg: a coin's confirmation point moves
                14 => {
                    let i = rng.usize_below(nspends);
                    let mut anch = anchors.clone();
                    anch.push(u64::from(cur_h));
                    let nb = (pick_birth_h(rng, &anch), pick_birth_t(rng, &anch));
                    births[i] = nb;
                    events.push(Ev::Birth { spend: i, h: nb.0, t: nb.1 });
                    let (h2, t2) = reference.thresholds(&case, &births);
                    hs = h2;
                    ts = t2;
                }
                // far jumps
                _ => {
                    if rng.chance(1, 2) {
                        cur_h = *rng.pick(&[0u32, u32::MAX, u32::MAX - 1, 1]);
                        events.push(Ev::H(cur_h));
                    } else {
                        cur_t = *rng.pick(&[0u64, u64::MAX, u64::MAX - 1, 1]);
                        events.push(Ev::T(cur_t));
                    }
                }
            }
        }
        case.events = events;
        case
    }
}
