//! C10 — block builders under histories with failing attempts (histsim, reduced
//! form: sequential, the injected fault is "this attempt fails in this way").
//!
//! Farmer = the real BlockBuilder / InternedBlockBuilder; mempool = the real
//! run_spendbundle (truthful costs); validator = the real run_block_generator2.
//! Two replicas of the builder are stepped together: R1 sees the whole history,
//! R2 only the attempts R1 accepted; their outputs must be identical.

use crate::core::*;
use crate::rng::{Digest, Rng};
use chia_bls::{aggregate, sign, SecretKey, Signature};
use chia_consensus::build_compressed_block::BlockBuilder;
use chia_consensus::build_interned_block::InternedBlockBuilder;
use chia_consensus::consensus_constants::{ConsensusConstants, TEST_CONSTANTS};
use chia_consensus::flags::ConsensusFlags;
use chia_consensus::run_block_generator::run_block_generator2;
use chia_consensus::solution_generator::calculate_generator_length;
use chia_consensus::spendbundle_conditions::run_spendbundle;
use chia_protocol::{Bytes32, Coin, CoinSpend, Program, SpendBundle};
use clvmr::allocator::{Allocator, NodePtr, SExp};
use clvmr::serde::{node_from_bytes_backrefs, node_to_bytes, node_to_bytes_backrefs};
use serde::{Deserialize, Serialize};
use serde_json::{json, Value};
use sha2::{Digest as _, Sha256};
use std::panic::{catch_unwind, AssertUnwindSafe};
use std::sync::OnceLock;

#[derive(Serialize, Deserialize, Clone, Debug, PartialEq)]
pub enum CondSpec {
    CreateCoin { ph: u8, amount: u64 },
    Remark { blob: u8 },
    /// REMARK whose argument is a pair-heavy tree (depth levels; leaves from a tiny vocabulary,
    /// so sub-trees repeat within and across spends)
    RemarkTree { depth: u8, seed: u8 },
}

#[derive(Serialize, Deserialize, Clone, Debug, PartialEq)]
pub struct SpendSpec {
    pub parent_seed: u64,
    pub amount: u64,
    pub conds: Vec<CondSpec>,
    /// false: puzzle is the atom `1` and the solution is the condition list;
    /// true: puzzle is `(q . conditions)` and the solution is nil
    #[serde(default)]
    pub quoted: bool,
    /// the solution / puzzle bytes handed to the builder use back-reference serialisation
    /// (the builder accepts it; the mempool's run_spendbundle does not, so such an
    /// attempt never counts as truthful)
    #[serde(default)]
    pub backrefs: bool,
    /// non-zero: the puzzle reveal and the solution are opaque CLVM values built from atoms
    /// that occur nowhere else (1: 4-byte atoms, 2: 33-byte atoms, 3: the puzzle is a pair of
    /// two such atoms), so the spend shares nothing with the rest of the generator. Such a
    /// spend does not run, so it never has a truthful cost; the builders do not run it either.
    /// 4: the puzzle is a unique atom and the solution *quotes the bundle*: it is the list
    /// (t_{k-1} ... t_1) of the (parent puzzle amount solution) tuples of the spends before it in
    /// its own bundle, most recent first — the very list cells a builder creates for them.
    #[serde(default)]
    pub opaque: u8,
    /// non-zero: `coin.puzzle_hash` is NOT the tree hash of the puzzle reveal ("any bundles":
    /// the builders take the coin as given and never look at that field; consensus derives the
    /// hash from the reveal). 1: the hash of the puzzle `1`, 2: all zero, 3: one of three fixed
    /// labels shared by many spends. Such a spend fails in run_spendbundle, so its attempt never
    /// counts as truthful.
    #[serde(default)]
    pub label: u8,
}

#[derive(Serialize, Deserialize, Clone, Debug, PartialEq)]
pub enum Corrupt {
    None,
    /// keep only the first `keep` bytes of the spend's solution / puzzle reveal
    Truncate { spend: u8, solution: bool, keep: u16 },
    /// flip one bit
    Flip { spend: u8, solution: bool, pos: u16, bit: u8 },
}

#[derive(Serialize, Deserialize, Clone, Debug, PartialEq)]
pub struct BundleSpec {
    pub spends: Vec<SpendSpec>,
    pub sig: u8,
    pub corrupt: Corrupt,
}

#[derive(Serialize, Deserialize, Clone, Debug, PartialEq)]
pub enum CostSpec {
    /// execution + condition cost as the mempool computed it
    Truthful,
    /// the largest declared cost that still fits after this batch is serialised, plus delta
    Land { delta: i64 },
    Fixed(u64),
}

#[derive(Serialize, Deserialize, Clone, Debug, PartialEq)]
pub enum Op {
    Add { bundles: Vec<BundleSpec>, cost: CostSpec },
    ReadCost,
}

#[derive(Serialize, Deserialize, Clone, Debug)]
pub struct Case {
    pub interned: bool,
    pub max_cost: u64,
    pub cost_per_byte: u64,
    pub cost_conditions: bool,
    pub ops: Vec<Op>,
}

fn sha(parts: &[&[u8]]) -> [u8; 32] {
    let mut h = Sha256::new();
    for p in parts {
        h.update(p);
    }
    h.finalize().into()
}

struct Vocab {
    phs: Vec<[u8; 32]>,
    blobs: Vec<Vec<u8>>,
    sigs: Vec<Signature>,
    puzzle_hash_of_1: [u8; 32],
}

fn vocab() -> &'static Vocab {
    static V: OnceLock<Vocab> = OnceLock::new();
    V.get_or_init(|| {
        let phs = (0..4u8).map(|i| sha(&[b"ph", &[i]])).collect();
        let mut blobs = vec![];
        for (i, len) in [3usize, 40, 120, 300, 1100, 5000].iter().enumerate() {
            let mut b = vec![];
            let mut x = sha(&[b"blob", &[i as u8]]);
            while b.len() < *len {
                b.extend_from_slice(&x);
                x = sha(&[&x]);
            }
            b.truncate(*len);
            blobs.push(b);
        }
        let sk = SecretKey::from_seed(&[9u8; 32]);
        let sigs = (0..8u8).map(|i| sign(&sk, [i])).collect();
        // tree hash of the atom 1
        let puzzle_hash_of_1 = sha(&[&[1u8], &[1u8]]);
        Vocab { phs, blobs, sigs, puzzle_hash_of_1 }
    })
}

fn list(a: &mut Allocator, items: &[NodePtr]) -> NodePtr {
    let mut r = a.nil();
    for it in items.iter().rev() {
        r = a.new_pair(*it, r).unwrap();
    }
    r
}

fn solution_bytes(sp: &SpendSpec) -> Vec<u8> {
    let v = vocab();
    let mut a = Allocator::new();
    let mut conds = vec![];
    for c in &sp.conds {
        match c {
            CondSpec::CreateCoin { ph, amount } => {
                let op = a.new_atom(&[51]).unwrap();
                let p = a.new_atom(&v.phs[*ph as usize % v.phs.len()]).unwrap();
                let am = a.new_number((*amount).into()).unwrap();
                conds.push(list(&mut a, &[op, p, am]));
            }
            CondSpec::Remark { blob } => {
                let op = a.new_atom(&[1]).unwrap();
                let b = a.new_atom(&v.blobs[*blob as usize % v.blobs.len()]).unwrap();
                conds.push(list(&mut a, &[op, b]));
            }
            CondSpec::RemarkTree { depth, seed } => {
                fn tree(a: &mut Allocator, depth: u8, x: &mut u32) -> NodePtr {
                    *x = x.wrapping_mul(1_103_515_245).wrapping_add(12_345);
                    if depth == 0 || (*x >> 16) % 7 == 0 {
                        let leaf = [b"a".as_slice(), b"bc", b"", b"leaf-leaf-leaf"][((*x >> 8) % 4) as usize];
                        return a.new_atom(leaf).unwrap();
                    }
                    let l = tree(a, depth - 1, x);
                    let r = tree(a, depth - 1, x);
                    a.new_pair(l, r).unwrap()
                }
                let op = a.new_atom(&[1]).unwrap();
                let mut x = u32::from(*seed) + 1;
                let t = tree(&mut a, (*depth).min(9), &mut x);
                conds.push(list(&mut a, &[op, t]));
            }
        }
    }
    let l = list(&mut a, &conds);
    if sp.backrefs {
        node_to_bytes_backrefs(&a, l).unwrap()
    } else {
        node_to_bytes(&a, l).unwrap()
    }
}

fn build_bundle(b: &BundleSpec) -> SpendBundle {
    let v = vocab();
    let mut spends = vec![];
    let mut so_far: Vec<([u8; 32], Vec<u8>, u64, Vec<u8>)> = vec![];
    for (i, sp) in b.spends.iter().enumerate() {
        let parent = sha(&[b"parent", &sp.parent_seed.to_le_bytes()]);
        let (mut puzzle, mut solution, ph): (Vec<u8>, Vec<u8>, [u8; 32]) = if sp.opaque != 0 {
            let seed = sp.parent_seed.to_le_bytes();
            let len = if sp.opaque == 2 { 33 } else { 4 };
            let atom = |tag: &[u8]| -> Vec<u8> {
                let mut x = sha(&[b"opaque", tag, &seed]).to_vec();
                x.extend_from_slice(&sha(&[b"opaque2", tag, &seed]));
                x[0] |= 0x40; // never a small integer, never nil
                x.truncate(len);
                x
            };
            let mut a = Allocator::new();
            let p1 = a.new_atom(&atom(b"p1")).unwrap();
            let pz = if sp.opaque == 3 {
                let p2 = a.new_atom(&atom(b"p2")).unwrap();
                a.new_pair(p1, p2).unwrap()
            } else {
                p1
            };
            let mut so = a.new_atom(&atom(b"s")).unwrap();
            if sp.opaque == 4 {
                // quote the spends before this one (if their bytes decode)
                let mut l = a.nil();
                let mut ok = true;
                for (par, puz, am, sol) in &so_far {
                    let (Ok(pzn), Ok(son)) = (node_from_bytes_backrefs(&mut a, puz), node_from_bytes_backrefs(&mut a, sol)) else {
                        ok = false;
                        break;
                    };
                    let nil = a.nil();
                    let t = a.new_pair(son, nil).unwrap();
                    let amn = a.new_number((*am).into()).unwrap();
                    let t = a.new_pair(amn, t).unwrap();
                    let t = a.new_pair(pzn, t).unwrap();
                    let parn = a.new_atom(par).unwrap();
                    let t = a.new_pair(parn, t).unwrap();
                    l = a.new_pair(t, l).unwrap();
                }
                if ok && !so_far.is_empty() {
                    so = l;
                }
            }
            let p = node_to_bytes(&a, pz).unwrap();
            let ph = clvm_utils::tree_hash_from_bytes(&p).map(|h| h.to_bytes()).unwrap_or([0u8; 32]);
            (p, node_to_bytes(&a, so).unwrap(), ph)
        } else if sp.quoted {
            // (q . conditions): ff 01 <conditions>
            let mut p = vec![0xff, 0x01];
            p.extend_from_slice(&solution_bytes(sp));
            let ph = clvm_utils::tree_hash_from_bytes(&p).map(|h| h.to_bytes()).unwrap_or([0u8; 32]);
            (p, vec![0x80], ph)
        } else {
            (vec![1], solution_bytes(sp), v.puzzle_hash_of_1)
        };
        let ph = match sp.label {
            0 => ph,
            1 => v.puzzle_hash_of_1,
            2 => [0u8; 32],
            _ => sha(&[b"label", &[(sp.parent_seed % 3) as u8]]),
        };
        let coin = Coin::new(Bytes32::new(parent), Bytes32::new(ph), sp.amount);
        match &b.corrupt {
            Corrupt::Truncate { spend, solution: s, keep } if *spend as usize == i => {
                let t = if *s { &mut solution } else { &mut puzzle };
                let k = (*keep as usize).min(t.len().saturating_sub(1));
                t.truncate(k);
            }
            Corrupt::Flip { spend, solution: s, pos, bit } if *spend as usize == i => {
                let t = if *s { &mut solution } else { &mut puzzle };
                if !t.is_empty() {
                    let p = *pos as usize % t.len();
                    t[p] ^= 1 << (bit % 8);
                }
            }
            _ => {}
        }
        so_far.push((parent, puzzle.clone(), sp.amount, solution.clone()));
        spends.push(CoinSpend::new(coin, Program::from(puzzle), Program::from(solution)));
    }
    SpendBundle::new(spends, v.sigs[b.sig as usize % v.sigs.len()].clone())
}

/// canonical (parent, puzzle, amount, solution) of a spend as the builder must emit it,
/// or None when the bytes do not decode
fn expected_tuple(cs: &CoinSpend) -> Option<[Vec<u8>; 4]> {
    let mut a = Allocator::new();
    let puz = node_from_bytes_backrefs(&mut a, cs.puzzle_reveal.as_slice()).ok()?;
    let sol = node_from_bytes_backrefs(&mut a, cs.solution.as_slice()).ok()?;
    let am = a.new_number(cs.coin.amount.into()).ok()?;
    Some([
        cs.coin.parent_coin_info.to_vec(),
        node_to_bytes(&a, puz).ok()?,
        a.atom(am).as_ref().to_vec(),
        node_to_bytes(&a, sol).ok()?,
    ])
}

fn decode_generator(generator: &[u8]) -> Result<Vec<[Vec<u8>; 4]>, String> {
    let mut a = Allocator::new();
    let root = node_from_bytes_backrefs(&mut a, generator).map_err(|e| format!("generator does not decode: {e:?}"))?;
    let pair = |a: &Allocator, n: NodePtr| -> Result<(NodePtr, NodePtr), String> {
        match a.sexp(n) {
            SExp::Pair(l, r) => Ok((l, r)),
            SExp::Atom => Err("generator is not (q . ((spends)))".to_string()),
        }
    };
    let (q, rest) = pair(&a, root)?;
    if a.atom(q).as_ref() != [1u8] {
        return Err("generator does not start with a quote".into());
    }
    let (mut spends, tail) = pair(&a, rest)?;
    if !matches!(a.sexp(tail), SExp::Atom) || !a.atom(tail).as_ref().is_empty() {
        return Err("generator has trailing items after the spend list".into());
    }
    let mut out = vec![];
    while let SExp::Pair(item, next) = a.sexp(spends) {
        let (parent, r) = pair(&a, item)?;
        let (puz, r) = pair(&a, r)?;
        let (am, r) = pair(&a, r)?;
        let (sol, _r) = pair(&a, r)?;
        if !matches!(a.sexp(parent), SExp::Atom) || !matches!(a.sexp(am), SExp::Atom) {
            return Err("spend with non-atom parent or amount".into());
        }
        out.push([
            a.atom(parent).as_ref().to_vec(),
            node_to_bytes(&a, puz).map_err(|e| format!("{e:?}"))?,
            a.atom(am).as_ref().to_vec(),
            node_to_bytes(&a, sol).map_err(|e| format!("{e:?}"))?,
        ]);
        spends = next;
    }
    Ok(out)
}

/// Size weight of a generator as consensus defines it for interned generators, computed
/// independently of clvmr's intern_tree and of generator_cost.rs: every distinct atom counts
/// its length + 2, every distinct pair 3 (distinct by content / by the identity of its children).
fn interned_weight(generator: &[u8]) -> Result<u64, String> {
    use std::collections::HashMap;
    let mut a = Allocator::new();
    let root = node_from_bytes_backrefs(&mut a, generator).map_err(|e| format!("{e:?}"))?;
    let mut atoms: HashMap<Vec<u8>, u32> = HashMap::new();
    let mut pairs: HashMap<(u32, u32), u32> = HashMap::new();
    let mut id_of: HashMap<NodePtr, u32> = HashMap::new();
    let mut next = 0u32;
    let mut weight = 0u64;
    // iterative post-order
    let mut stack: Vec<(NodePtr, bool)> = vec![(root, false)];
    while let Some((n, expanded)) = stack.pop() {
        if id_of.contains_key(&n) {
            continue;
        }
        match a.sexp(n) {
            SExp::Atom => {
                let bytes = a.atom(n).as_ref().to_vec();
                let len = bytes.len() as u64;
                let id = *atoms.entry(bytes).or_insert_with(|| {
                    next += 1;
                    weight += len + 2;
                    next
                });
                id_of.insert(n, id);
            }
            SExp::Pair(l, r) => {
                if expanded {
                    let key = (id_of[&l], id_of[&r]);
                    let id = *pairs.entry(key).or_insert_with(|| {
                        next += 1;
                        weight += 3;
                        next
                    });
                    id_of.insert(n, id);
                } else {
                    stack.push((n, true));
                    stack.push((r, false));
                    stack.push((l, false));
                }
            }
        }
    }
    Ok(weight)
}

enum B {
    C(BlockBuilder),
    I(InternedBlockBuilder),
}

impl B {
    fn new(interned: bool, k: &ConsensusConstants) -> Result<B, String> {
        if interned {
            Ok(B::I(InternedBlockBuilder::new(k)))
        } else {
            BlockBuilder::new().map(B::C).map_err(|e| format!("{e:?}"))
        }
    }
    fn add(&mut self, bundles: &[SpendBundle], cost: u64, k: &ConsensusConstants) -> Result<(bool, bool), String> {
        match self {
            B::C(b) => b
                .add_spend_bundles(bundles.iter(), cost, k)
                .map(|(added, r)| (added, r == chia_consensus::build_compressed_block::BuildBlockResult::Done))
                .map_err(|e| format!("{e:?}")),
            B::I(b) => b
                .add_spend_bundles(bundles.iter(), cost)
                .map(|(added, r)| (added, r == chia_consensus::build_interned_block::BuildBlockResult::Done))
                .map_err(|e| format!("{e:?}")),
        }
    }
    fn cost(&self) -> u64 {
        match self {
            B::C(b) => b.cost(),
            B::I(b) => b.cost(),
        }
    }
    fn finalize(self, k: &ConsensusConstants) -> Result<(Vec<u8>, Signature, u64), String> {
        match self {
            B::C(b) => b.finalize(k).map_err(|e| format!("{e:?}")),
            B::I(mut b) => b.finalize().map_err(|e| format!("{e:?}")),
        }
    }
}

fn guard<T>(f: impl FnOnce() -> T) -> Result<T, String> {
    catch_unwind(AssertUnwindSafe(f)).map_err(|e| {
        if let Some(s) = e.downcast_ref::<String>() {
            s.clone()
        } else if let Some(s) = e.downcast_ref::<&str>() {
            (*s).to_string()
        } else {
            "panic".into()
        }
    })
}

struct Accepted {
    bundles: Vec<SpendBundle>,
    declared: u64,
    truthful: bool,
}

/// What must hold for any builder output given the attempts it accepted: exactly their
/// spends, exactly their signatures, within the limit, and (compressed builder) a cost that
/// is 20 + the declared costs + size * cost_per_byte. Returns the decoded spends, sorted.
fn output_consistent(
    generator: &[u8],
    signature: &Signature,
    cost: u64,
    accepted: &[Accepted],
    k: &ConsensusConstants,
    interned: bool,
) -> Result<Vec<[Vec<u8>; 4]>, (&'static str, String)> {
    let mut want: Vec<[Vec<u8>; 4]> = vec![];
    for acc in accepted {
        for b in &acc.bundles {
            for cs in &b.coin_spends {
                if let Some(t) = expected_tuple(cs) {
                    want.push(t);
                }
            }
        }
    }
    let mut got = match guard(|| decode_generator(generator)) {
        Ok(Ok(g)) => g,
        Ok(Err(e)) => return Err(("generator_malformed", e)),
        Err(p) => return Err(("generator_malformed", p)),
    };
    want.sort();
    got.sort();
    if want != got {
        return Err(("generator_content_mismatch", format!("generator holds {} spends, the accepted attempts hold {}", got.len(), want.len())));
    }
    let want_sig = aggregate(accepted.iter().flat_map(|a| a.bundles.iter().map(|b| &b.aggregated_signature)));
    if &want_sig != signature {
        return Err(("signature_mismatch", "returned signature is not the aggregate of the accepted bundles' signatures".to_string()));
    }
    if cost > k.max_block_cost_clvm {
        return Err(("cost_above_limit", format!("cost {cost} > max_block_cost_clvm {}", k.max_block_cost_clvm)));
    }
    if !interned {
        let declared: u128 = accepted.iter().map(|a| u128::from(a.declared)).sum();
        let expect = 20u128 + declared + generator.len() as u128 * u128::from(k.cost_per_byte);
        if u128::from(cost) != expect {
            return Err((
                "cost_not_sum_of_declared_and_bytes",
                format!("cost {cost} but 20 + declared costs of the accepted attempts + {} bytes * {} = {expect}", generator.len(), k.cost_per_byte),
            ));
        }
    } else {
        // interned builder: 20 (the quote, as for the compressed builder) + declared costs + the
        // interned size weight of the emitted generator
        let declared: u128 = accepted.iter().map(|a| u128::from(a.declared)).sum();
        let w = interned_weight(generator).map_err(|e| ("generator_malformed", e))?;
        let expect = 20u128 + declared + u128::from(w) * u128::from(k.cost_per_byte);
        if u128::from(cost) != expect {
            return Err((
                "cost_not_sum_of_declared_and_interned_size",
                format!("cost {cost} but 20 + declared costs of the accepted attempts + interned weight {w} * {} = {expect}", k.cost_per_byte),
            ));
        }
    }
    Ok(got)
}

pub struct C10;

impl C10 {
    fn constants(case: &Case) -> ConsensusConstants {
        let mut k = TEST_CONSTANTS.clone();
        k.max_block_cost_clvm = case.max_cost;
        k.cost_per_byte = case.cost_per_byte;
        k
    }

    fn flags(case: &Case) -> ConsensusFlags {
        let mut f = ConsensusFlags::DONT_VALIDATE_SIGNATURE;
        if case.cost_conditions {
            f |= ConsensusFlags::COST_CONDITIONS;
        }
        f
    }

    fn exec(&self, case: &Case, c: &mut Counters) -> (Option<Violation>, u64, Option<u64>) {
        let mut d = Digest::new();
        let mut shape = Digest::new();
        let k = Self::constants(case);
        let flags = Self::flags(case);
        let kind = if case.interned { "interned" } else { "compressed" };
        macro_rules! bail {
            ($sig:expr, $step:expr, $detail:expr) => {{
                return (Some(Violation { signature: $sig, step: $step, detail: $detail }), d.finish(), None);
            }};
        }
        let mut r1 = match guard(|| B::new(case.interned, &k)) {
            Ok(Ok(b)) => b,
            Ok(Err(e)) => bail!(format!("error:new:{kind}"), 0, e),
            Err(p) => bail!(format!("panic:new:{kind}"), 0, p),
        };
        let mut r2 = match guard(|| B::new(case.interned, &k)) {
            Ok(Ok(b)) => b,
            _ => bail!(format!("error:new:{kind}"), 0, "second replica".to_string()),
        };
        let mut accepted: Vec<Accepted> = vec![];
        let mut reads: Vec<(usize, u64)> = vec![]; // (number of accepted attempts at the time, cost())
        let mut failed_attempts = 0u32;

        for (step, op) in case.ops.iter().enumerate() {
            c.inc("steps");
            match op {
                Op::ReadCost => {
                    let v = r1.cost();
                    reads.push((accepted.len(), v));
                    d.u64(v);
                    shape.str("read");
                }
                Op::Add { bundles, cost } => {
                    let built: Vec<SpendBundle> = bundles.iter().map(build_bundle).collect();
                    if bundles.iter().any(|b| b.spends.iter().any(|sp| sp.opaque != 0)) {
                        c.inc("probe.attempt_with_opaque_spends");
                    }
                    let decodable = built.iter().all(|b| b.coin_spends.iter().all(|cs| expected_tuple(cs).is_some()));
                    let corrupted = bundles.iter().any(|b| b.corrupt != Corrupt::None);
                    // truthful cost, as the mempool would have computed it
                    let mut truthful: Option<u64> = Some(0);
                    for b in &built {
                        let mut a = Allocator::new();
                        match guard(|| run_spendbundle(&mut a, b, 11_000_000_000, flags, &k)) {
                            Ok(Ok((conds, _))) => {
                                let bytes = (calculate_generator_length(&b.coin_spends) as u64 - 2) * k.cost_per_byte;
                                let t = conds.cost.saturating_sub(bytes);
                                truthful = truthful.map(|x| x + t);
                            }
                            _ => truthful = None,
                        }
                    }
                    let declared: u64 = match cost {
                        CostSpec::Truthful => truthful.unwrap_or(1_000_000),
                        CostSpec::Fixed(v) => *v,
                        CostSpec::Land { delta } => {
                            // a scratch builder that replays what was accepted and adds this batch for free
                            let probe = guard(|| -> Option<u64> {
                                let mut t = B::new(case.interned, &k).ok()?;
                                for acc in &accepted {
                                    t.add(&acc.bundles, acc.declared, &k).ok()?;
                                }
                                match t.add(&built, 0, &k) {
                                    Ok((true, _)) => Some(t.cost()),
                                    _ => None,
                                }
                            });
                            match probe {
                                Ok(Some(cost_after)) if cost_after <= k.max_block_cost_clvm => {
                                    let room = k.max_block_cost_clvm - cost_after;
                                    if *delta >= 0 { room.saturating_add(*delta as u64) } else { room.saturating_sub(delta.unsigned_abs()) }
                                }
                                _ => truthful.unwrap_or(1_000_000),
                            }
                        }
                    };
                    let is_truthful = Some(declared) == truthful && !corrupted;
                    let cost_before = r1.cost();
                    let res = match guard(|| r1.add(&built, declared, &k)) {
                        Ok(r) => r,
                        Err(p) => bail!(format!("panic:add:{kind}"), step, p),
                    };
                    if std::env::var("VSIM_DEBUG_C10").is_ok() {
                        eprintln!("step {step}: cost_before={cost_before} declared={declared} truthful={truthful:?} result={res:?} cost_after={}", r1.cost());
                    }
                    match res {
                        Ok((true, done)) => {
                            d.u64(1 + u64::from(done));
                            shape.str("accepted");
                            if !decodable {
                                bail!(format!("accepted_undecodable_bundle:{kind}"), step, "an attempt containing bytes that do not decode was accepted".to_string());
                            }
                            match cost {
                                CostSpec::Land { delta } if *delta == 0 => c.inc("probe.accepted_landing_exactly_on_the_limit"),
                                CostSpec::Land { .. } => c.inc("probe.accepted_landing_just_below_the_limit"),
                                _ => {}
                            }
                            // the accepted-only replica must accept it too
                            match guard(|| r2.add(&built, declared, &k)) {
                                Ok(Ok((true, _))) => {}
                                Ok(Ok((false, _))) if !case.interned && failed_attempts > 0 => {
                                    // Both builders hold the same accepted attempts and declared costs; if the one
                                    // that never saw a failed attempt is consistent with them, the only thing that
                                    // can make it reject what the other accepted is a larger serialisation (different
                                    // back-references, the recorded serializer-cache finding).
                                    let slack = k.max_block_cost_clvm.saturating_sub(r1.cost());
                                    let r2_out = guard(|| r2.finalize(&k));
                                    let consistent = match &r2_out {
                                        Ok(Ok((g, sg, cst))) => output_consistent(g, sg, *cst, &accepted, &k, false).is_ok(),
                                        _ => false,
                                    };
                                    if consistent {
                                        bail!(
                                            format!("rejected_attempt_changed_serialisation_only:{kind}"),
                                            step,
                                            format!(
                                                "an attempt landing {slack} cost units below the limit was accepted by the builder that saw the failed attempts and rejected by the one that did not (both hold exactly the accepted attempts; their serialised sizes differ)"
                                            )
                                        );
                                    }
                                    bail!(
                                        format!("replica_divergence:accept:{kind}"),
                                        step,
                                        "the builder that saw the failed attempts accepted this one, the one that did not rejected it, and its own output is not consistent with the accepted attempts".to_string()
                                    )
                                }
                                Ok(other) => bail!(
                                    format!("replica_divergence:accept:{kind}"),
                                    step,
                                    format!("the builder that saw the failed attempts accepted this one, the one that did not returned {other:?}")
                                ),
                                Err(p) => bail!(format!("panic:add:{kind}"), step, p),
                            }
                            accepted.push(Accepted { bundles: built, declared, truthful: is_truthful });
                        }
                        Ok((false, done)) => {
                            d.u64(3 + u64::from(done));
                            failed_attempts += 1;
                            // a rejected attempt leaves the running estimate where it was (skipped while
                            // nothing has been accepted yet: the compressed builder only learns its
                            // byte cost from the first serialisation, the recorded zero-accepted finding)
                            let cost_after = r1.cost();
                            if cost_after != cost_before && !(accepted.is_empty() && !case.interned) {
                                bail!(
                                    format!("rejected_attempt_changed_cost_estimate:{kind}"),
                                    step,
                                    format!("cost() was {cost_before} before the rejected attempt and is {cost_after} after it")
                                );
                            }
                            if cost_before.saturating_add(declared) > k.max_block_cost_clvm {
                                c.inc("fault.attempt_rejected_by_precheck");
                                shape.str("rejected_pre");
                            } else {
                                c.inc("fault.attempt_rejected_after_serialisation");
                                shape.str("rejected_post");
                            }
                            match cost {
                                CostSpec::Land { .. } => c.inc("probe.rejected_landing_just_above_the_limit"),
                                _ => {}
                            }
                        }
                        Err(e) => {
                            d.str(&e);
                            failed_attempts += 1;
                            shape.str("error");
                            if decodable {
                                bail!(format!("unexpected_error:add:{kind}"), step, format!("add_spend_bundles failed with {e} on well-formed bundles"));
                            }
                            c.inc("fault.attempt_fails_mid_batch_on_corrupted_bytes");
                            let idx = bundles.iter().position(|b| b.corrupt != Corrupt::None).unwrap_or(0);
                            if idx > 0 {
                                c.inc("probe.corrupted_bundle_after_good_ones_in_batch");
                            }
                        }
                    }
                    if failed_attempts > 6 {
                        c.inc("probe.more_than_max_skipped_items_failures");
                    }
                }
            }
        }
        // a read right before finalize
        let last_read = r1.cost();
        reads.push((accepted.len(), last_read));
        let nacc = accepted.len();
        let step = case.ops.len();

        let f1 = match guard(|| r1.finalize(&k)) {
            Ok(Ok(x)) => x,
            Ok(Err(e)) => bail!(format!("error:finalize:{kind}"), step, e),
            Err(p) => bail!(format!("panic:finalize:{kind}"), step, p),
        };
        let f2 = match guard(|| r2.finalize(&k)) {
            Ok(Ok(x)) => x,
            Ok(Err(e)) => bail!(format!("error:finalize:{kind}"), step, e),
            Err(p) => bail!(format!("panic:finalize:{kind}"), step, p),
        };
        let (generator, signature, cost) = f1;
        d.bytes(&generator);
        d.u64(cost);
        // (3) exactly the accepted spends, (4) exactly their signatures, (5) within the limit,
        // (5b) compressed builder: cost = 20 + declared costs + bytes * cost_per_byte
        let got = match output_consistent(&generator, &signature, cost, &accepted, &k, case.interned) {
            Ok(g) => g,
            Err((what, detail)) => bail!(format!("{what}:{kind}"), step, detail),
        };
        let want_len = got.len();
        // (6) equals what consensus charges, given truthful declared costs
        // the same coin spent twice (a byte-identical spend offered again, in the same or in a
        // later attempt) must be emitted twice — "exactly the spends of the accepted attempts";
        // consensus then rejects the block as a double spend, so the consensus comparison is
        // skipped for such histories (filtering conflicting bundles is the caller's job)
        let mut coins = std::collections::BTreeSet::new();
        let mut same_coin_twice = false;
        for acc in &accepted {
            for b in &acc.bundles {
                for cs in &b.coin_spends {
                    if !coins.insert((cs.coin.parent_coin_info, cs.coin.puzzle_hash, cs.coin.amount)) {
                        same_coin_twice = true;
                    }
                }
            }
        }
        if same_coin_twice {
            c.inc("probe.history_with_the_same_spend_accepted_twice");
        }
        let all_truthful = accepted.iter().all(|a| a.truthful) && !same_coin_twice;
        if all_truthful {
            c.inc("histories.validated_by_run_block_generator2");
            let mut vf = flags;
            if case.interned {
                vf |= ConsensusFlags::INTERNED_GENERATOR;
            }
            let r = guard(|| {
                run_block_generator2::<&[u8], _>(&generator, [], 11_000_000_000, vf, &signature, None, &k)
                    .map(|(_a, conds)| (conds.cost, conds.spends.len(), conds.removal_amount, conds.addition_amount))
                    .map_err(|e| format!("{:?}", e.error_code()))
            });
            match r {
                Err(p) => bail!(format!("panic:run_block_generator2:{kind}"), step, p),
                Ok(Err(e)) => bail!(format!("generator_rejected_by_consensus:{kind}:{e}"), step, format!("run_block_generator2 fails with {e}")),
                Ok(Ok((ccost, nspends, removal, addition))) => {
                    if ccost != cost {
                        bail!(
                            format!("cost_differs_from_consensus:{kind}"),
                            step,
                            format!("builder reports {cost}, run_block_generator2 charges {ccost}")
                        );
                    }
                    let want_removal: u128 = accepted.iter().flat_map(|a| a.bundles.iter()).flat_map(|b| b.coin_spends.iter()).map(|cs| u128::from(cs.coin.amount)).sum();
                    if nspends != want_len || removal != want_removal {
                        bail!(format!("conditions_mismatch:{kind}"), step, format!("{nspends} spends / removal {removal}, expected {want_len} / {want_removal}"));
                    }
                    let _ = addition;
                    // the limit is exact: it validates with max_cost = cost
                    let r2 = guard(|| run_block_generator2::<&[u8], _>(&generator, [], cost, vf, &signature, None, &k).map(|_| ()).map_err(|e| format!("{:?}", e.error_code())));
                    if !matches!(r2, Ok(Ok(()))) {
                        bail!(format!("cost_differs_from_consensus:{kind}"), step, format!("validation with max_cost = reported cost fails: {r2:?}"));
                    }
                }
            }
        }
        // (2) a rejected attempt leaves the later output unchanged
        if generator != f2.0 || signature != f2.1 || cost != f2.2 {
            let what = if generator != f2.0 { "generator" } else if signature != f2.1 { "signature" } else { "cost" };
            // both outputs are consistent with the same accepted attempts (same decoded spends,
            // same signature, each cost = declared costs + its own size): only the serialisation
            // (choice of back-references, hence possibly length and byte cost) differs
            let same_tree = !case.interned
                && matches!(output_consistent(&f2.0, &f2.1, f2.2, &accepted, &k, case.interned), Ok(ref g2) if *g2 == got);
            if same_tree {
                bail!(
                    format!("rejected_attempt_changed_serialisation_only:{kind}"),
                    step,
                    format!(
                        "the builder that saw the failed attempts emits {} bytes at cost {cost}, the one that did not {} bytes at cost {} (same decoded spends, same signature, different back-references)",
                        generator.len(), f2.0.len(), f2.2
                    )
                );
            }
            bail!(
                format!("rejected_attempt_changed_output:{kind}:{what}"),
                step,
                format!("with the failed attempts: {} bytes, cost {}; without them: {} bytes, cost {}", generator.len(), cost, f2.0.len(), f2.2)
            );
        }
        // (7) the running estimate never underestimates the final cost
        for (n, v) in &reads {
            if *n == nacc && *v < cost {
                let bucket = if nacc == 0 { "accepted=0" } else { "accepted>0" };
                bail!(
                    format!("cost_underestimate:{kind}:{bucket}"),
                    step,
                    format!("cost() returned {v} after the last accepted attempt, finalize returned {cost}")
                );
            }
        }
        if nacc == 0 {
            c.inc("probe.history_with_zero_accepted_attempts");
        }
        c.add("attempts.accepted", nacc as u64);
        c.add("attempts.failed", u64::from(failed_attempts));
        let nontrivial = if nacc >= 1 && failed_attempts >= 1 {
            shape.u64(u64::from(case.interned));
            Some(shape.finish())
        } else {
            None
        };
        (None, d.finish(), nontrivial)
    }
}

impl Engine for C10 {
    type Case = Case;
    fn id(&self) -> &'static str {
        "C10"
    }
    fn default_runs(&self, tier: Tier) -> u64 {
        match tier {
            Tier::Quick => 100_000,
            Tier::Thorough => 5_000_000,
        }
    }
    fn init(&self) {
        let _ = vocab();
    }
    fn info(&self) -> EngineInfo {
        EngineInfo {
            engine: "histsim",
            rule: "seeded histories of 1-14 add_spend_bundles attempts (batches of 1-3 bundles of 1-3 spends with puzzle `1`, CREATE_COIN / REMARK conditions drawn from a small shared vocabulary so that back-references matter) with interleaved cost() reads, then finalize, on the real BlockBuilder or InternedBlockBuilder under per-run max_block_cost_clvm / cost_per_byte; attempts are made to fail by pre-check, after serialisation (declared cost landing on / just above the remaining budget) and mid-batch on truncated or bit-flipped bytes. A run is non-trivial if it has at least one accepted and one failed attempt; distinct = distinct (builder, outcome sequence incl. failure kind) among those",
            components_real: vec![
                "chia_consensus::build_compressed_block::BlockBuilder (new, add_spend_bundles, cost, finalize)",
                "chia_consensus::build_interned_block::InternedBlockBuilder (new, add_spend_bundles, cost, finalize)",
                "chia_consensus::spendbundle_conditions::run_spendbundle (truthful costs)",
                "chia_consensus::run_block_generator::run_block_generator2 (validator, with INTERNED_GENERATOR for the interned builder)",
                "clvmr incremental Serializer / intern_tree / checkpoint-restore underneath",
            ],
            components_stub: vec![
                "mempool item generator (bundles, declared costs, corruption)",
                "reference model: the list of accepted attempts; a second builder replica that only sees accepted attempts",
            ],
            assumptions: vec![
                "reduced form of the technique: sequential histories, the injected fault is a failing attempt; no scheduler, no clock",
                "equality with the consensus cost is required only when every accepted attempt's declared cost was truthful",
                "declared costs at the top of the u64 range are generated (2^63, 2^64-21 .. 2^64-1, 2^64-1-limit): sums are compared in u128 by the harness",
                "the order of spends inside the generator is not constrained (multiset comparison)",
                "allocation failure is not injected (Allocator::new() is constructed inside the builders)",
            ],
            fault_kinds: vec![
                "attempt_rejected_by_precheck",
                "attempt_rejected_after_serialisation",
                "attempt_fails_mid_batch_on_corrupted_bytes",
            ],
        }
    }

    fn generate(&self, rng: &mut Rng, tier: Tier) -> Case {
        let deep = tier == Tier::Thorough && rng.chance(1, 5);
        let interned = rng.chance(1, 2);
        let max_cost = if deep { *rng.pick(&[40_000_000u64, 100_000_000, 250_000_000]) } else { *rng.pick(&[6_500_000u64, 8_000_000, 12_000_000, 20_000_000, 40_000_000]) };
        let cost_per_byte = *rng.pick(&[1u64, 7, 500, 12_000]);
        let cost_conditions = rng.chance(1, 2);
        let nops = match rng.below(6) {
            0 => rng.range(1, 2),
            1..=3 => rng.range(2, 7),
            _ => rng.range(5, 14),
        } as usize;
        let nops = if deep { rng.range(14, 40) as usize } else { nops };
        let fault_pct = *rng.pick(&[0u64, 10, 25, 50]);
        let mut parent_counter = rng.below(1 << 40);
        let mut recent: Vec<SpendSpec> = vec![];
        // swarm: some histories consist only of spends that share nothing with each other or
        // with the generator's wrapper (no `1`, no `q`, no common amounts or vocabulary), in
        // bundles of at least opaque_min spends: whatever the size estimate charges per spend,
        // per bundle or per shared atom then shows undiluted
        // one history in 15: about half of the spends carry a puzzle hash that is not the hash
        // of their reveal (a constant, or a label shared with other spends)
        let mislabelled = rng.chance(1, 15);
        let opaque_only = rng.chance(1, 12);
        let opaque_min = if rng.chance(1, 2) { 4 } else { 1 };
        let mut ops = vec![];
        while ops.len() < nops {
            if rng.chance(1, 6) {
                ops.push(Op::ReadCost);
                continue;
            }
            let nb = match rng.below(60) {
                0 => 0, // an empty batch
                1..=40 => 1,
                41..=50 => 2,
                51..=58 => 3,
                _ => rng.range(4, 8) as usize,
            };
            let mut bundles = vec![];
            for _ in 0..nb {
                let ns = match rng.below(60) {
                    0 => 0, // a bundle without coin spends
                    1..=40 => 1,
                    41..=50 => 2,
                    51..=58 => 3,
                    _ => rng.range(4, 6) as usize,
                };
                let ns = if opaque_only { rng.range(opaque_min, 8) as usize } else { ns };
                let mut spends = vec![];
                for _ in 0..ns {
                    parent_counter += 1;
                    // one spend in 30 is a byte-identical copy of a recent one (same bundle, same
                    // batch or an earlier attempt): it must be emitted as often as it was accepted
                    if !recent.is_empty() && rng.chance(1, 30) {
                        let dup = rng.pick(&recent).clone();
                        spends.push(dup);
                        continue;
                    }
                    if opaque_only || rng.chance(1, 25) {
                        spends.push(SpendSpec {
                            parent_seed: parent_counter,
                            amount: 1000 + parent_counter % 60_000,
                            conds: vec![],
                            quoted: false,
                            backrefs: false,
                            // in the histories made of opaque spends only, a spend that follows
                            // others in its bundle quotes them one time in three
                            opaque: if opaque_only && !spends.is_empty() && rng.chance(1, 3) { 4 } else { 1 + rng.below(3) as u8 },
                            label: if mislabelled && rng.chance(1, 2) { 1 + rng.below(3) as u8 } else { 0 },
                        });
                        if spends.last().unwrap().opaque != 4 {
                            recent.push(spends.last().unwrap().clone());
                        }
                        continue;
                    }
                    let nc = match rng.below(8) {
                        0 => 0,
                        1..=4 => 1,
                        5 | 6 => 2,
                        _ => 3,
                    };
                    let mut conds = vec![];
                    let mut used = std::collections::BTreeSet::new();
                    for _ in 0..nc {
                        if rng.chance(1, 2) {
                            let ph = rng.below(4) as u8;
                            let amount = rng.below(3);
                            if used.insert((ph, amount)) {
                                conds.push(CondSpec::CreateCoin { ph, amount });
                            }
                        } else if rng.chance(1, 6) {
                            conds.push(CondSpec::RemarkTree { depth: rng.range(1, 8) as u8, seed: rng.below(4) as u8 });
                        } else {
                            conds.push(CondSpec::Remark { blob: if rng.chance(1, 12) { 4 + rng.below(2) as u8 } else { rng.below(4) as u8 } });
                        }
                    }
                    let amount = match rng.below(12) {
                        0 => 0,
                        1 => *rng.pick(&[0x7fu64, 0x80, 0x7fff, 0x8000, 0x7fff_ffff_ffff_ffff, 0x8000_0000_0000_0000, u64::MAX]),
                        _ => 10 + rng.below(3),
                    };
                    if amount < 10 {
                        for c in conds.iter_mut() {
                            if let CondSpec::CreateCoin { amount, .. } = c {
                                *amount = 0;
                            }
                        }
                        // two zero-amount coins with the same puzzle hash would be duplicates
                        let mut seen = std::collections::BTreeSet::new();
                        conds.retain(|c| match c {
                            CondSpec::CreateCoin { ph, .. } => seen.insert(*ph),
                            CondSpec::Remark { .. } | CondSpec::RemarkTree { .. } => true,
                        });
                    }
                    spends.push(SpendSpec { parent_seed: parent_counter, amount, conds, quoted: rng.chance(1, 4), backrefs: rng.chance(1, 10), opaque: 0, label: if (mislabelled && rng.chance(1, 2)) || rng.chance(1, 40) { 1 + rng.below(3) as u8 } else { 0 } });
                    recent.push(spends.last().unwrap().clone());
                    if recent.len() > 12 {
                        recent.remove(0);
                    }
                }
                let corrupt = if !spends.is_empty() && rng.below(100) < fault_pct / 2 {
                    let spend = rng.usize_below(spends.len()) as u8;
                    if rng.chance(1, 2) {
                        Corrupt::Truncate { spend, solution: rng.chance(3, 4), keep: rng.below(12) as u16 }
                    } else {
                        Corrupt::Flip { spend, solution: rng.chance(3, 4), pos: rng.below(64) as u16, bit: rng.below(8) as u8 }
                    }
                } else {
                    Corrupt::None
                };
                bundles.push(BundleSpec { spends, sig: rng.below(8) as u8, corrupt });
            }
            // the first attempts decide most boundary cases (nothing shared yet): fault them more often
            let first = !ops.iter().any(|o| matches!(o, Op::Add { .. }));
            let pct = if first && fault_pct > 0 { fault_pct.max(40) } else { fault_pct };
            let cost = if rng.below(100) < pct {
                match rng.below(9) {
                    6 => CostSpec::Land { delta: 5 * cost_per_byte as i64 },
                    7 => CostSpec::Land { delta: 10 * cost_per_byte as i64 },
                    8 => CostSpec::Land { delta: 12 * cost_per_byte as i64 },
                    0 => CostSpec::Land { delta: 0 },
                    1 => CostSpec::Land { delta: 1 },
                    2 => CostSpec::Land { delta: -(cost_per_byte as i64) },
                    3 => CostSpec::Land { delta: cost_per_byte as i64 },
                    4 => CostSpec::Fixed(if rng.chance(1, 4) {
                        0
                    } else if rng.chance(1, 6) {
                        // declared costs at the top of the integer range: sums must not wrap
                        *rng.pick(&[u64::MAX, u64::MAX - 19, u64::MAX - 20, u64::MAX - 21, 1 << 63, (1 << 63) - 1, u64::MAX - max_cost, u64::MAX - max_cost / 2])
                    } else {
                        rng.below(max_cost + max_cost / 4)
                    }),
                    _ => CostSpec::Land { delta: -1 },
                }
            } else {
                CostSpec::Truthful
            };
            // a free (declared cost 0) attempt whose bytes alone may not fit
            let has_big_blob = bundles.iter().any(|b| b.spends.iter().any(|s| s.conds.iter().any(|c| matches!(c, CondSpec::Remark { blob } if *blob >= 4))));
            let cost = if fault_pct > 0 && (has_big_blob && rng.chance(1, 3) || rng.chance(1, 60)) { CostSpec::Fixed(0) } else { cost };
            ops.push(Op::Add { bundles, cost });
        }
        Case { interned, max_cost, cost_per_byte, cost_conditions, ops }
    }

    fn execute(&self, case: &Case, _ctx: &WorkerCtx, counters: &mut Counters) -> RunOutput<Case> {
        if case.interned { counters.inc("runs.interned_builder") } else { counters.inc("runs.compressed_builder") }
        let (violation, digest, nontrivial) = self.exec(case, counters);
        RunOutput { violation, digest, nontrivial, resolved: None }
    }

    fn shrink(&self, case: &Case) -> Vec<Case> {
        let mut out = vec![];
        for ops in removal_candidates(&case.ops) {
            let mut c = case.clone();
            c.ops = ops;
            out.push(c);
        }
        for (i, op) in case.ops.iter().enumerate() {
            let Op::Add { bundles, cost } = op else { continue };
            let mut alts: Vec<Op> = vec![];
            if bundles.len() > 1 {
                for j in 0..bundles.len() {
                    let mut b = bundles.clone();
                    b.remove(j);
                    alts.push(Op::Add { bundles: b, cost: cost.clone() });
                }
            }
            for (j, b) in bundles.iter().enumerate() {
                if b.spends.len() > 1 {
                    for s in 0..b.spends.len() {
                        let mut nb = bundles.clone();
                        nb[j].spends.remove(s);
                        alts.push(Op::Add { bundles: nb, cost: cost.clone() });
                    }
                }
                for (s, sp) in b.spends.iter().enumerate() {
                    for ci in 0..sp.conds.len() {
                        let mut nb = bundles.clone();
                        nb[j].spends[s].conds.remove(ci);
                        alts.push(Op::Add { bundles: nb, cost: cost.clone() });
                    }
                }
                if b.corrupt != Corrupt::None {
                    let mut nb = bundles.clone();
                    nb[j].corrupt = Corrupt::None;
                    alts.push(Op::Add { bundles: nb, cost: cost.clone() });
                }
            }
            if *cost != CostSpec::Truthful {
                alts.push(Op::Add { bundles: bundles.clone(), cost: CostSpec::Truthful });
            }
            for a in alts {
                let mut c = case.clone();
                c.ops[i] = a;
                out.push(c);
            }
        }
        if case.cost_conditions {
            let mut c = case.clone();
            c.cost_conditions = false;
            out.push(c);
        }
        out
    }

    fn extra_coverage(&self, c: &Counters) -> Value {
        let g = |k: &str| c.map.get(k).copied().unwrap_or(0);
        json!({
            "attempts_accepted": g("attempts.accepted"),
            "attempts_failed": g("attempts.failed"),
            "histories_validated_by_consensus": g("histories.validated_by_run_block_generator2"),
            "distinct_interleavings": "n/a (sequential histories; the searched space is histories x failing attempts x cost landing points)",
        })
    }
}
