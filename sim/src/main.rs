mod c03;
mod c05;
mod c10;
mod c15;
mod c18;
mod core;
mod rng;
mod sched;

use crate::core::{Engine, Options, Tier, DEFAULT_SEED};
use std::path::PathBuf;

fn usage() -> ! {
    eprintln!(
        "usage: vsim run <ID> [--tier quick|thorough] [--seed N] [--runs N] [--workers N] [--verif-dir DIR] [--no-evidence] [--print-digest]\n       vsim replay <file> [--verif-dir DIR]\n       vsim list"
    );
    std::process::exit(2);
}

macro_rules! dispatch {
    ($id:expr, $f:ident, $($arg:expr),*) => {
        match $id {
            "C03" => $f(&c03::C03, $($arg),*),
            "C05" => $f(&c05::C05, $($arg),*),
            "C10" => $f(&c10::C10, $($arg),*),
            "C15" => $f(&c15::C15, $($arg),*),
            "C18" => $f(&c18::C18, $($arg),*),
            other => {
                eprintln!("HARNESS-ERROR: unknown property {other}");
                2
            }
        }
    };
}

fn run_one<E: Engine>(e: &E, opt: &Options) -> i32 {
    core::run_batch(e, opt)
}

fn replay_one<E: Engine>(e: &E, doc: &serde_json::Value, path: &std::path::Path, verif: &std::path::Path) -> i32 {
    core::replay(e, doc, path, verif)
}

fn main() {
    // real code under test may panic; panics are caught and turned into
    // violations, so keep stderr quiet
    std::panic::set_hook(Box::new(|_| {}));
    let args: Vec<String> = std::env::args().collect();
    if args.len() < 2 {
        usage();
    }
    let mut verif_dir = PathBuf::from(std::env::var("VERIF_DIR").unwrap_or_else(|_| "/verif".into()));
    match args[1].as_str() {
        "debug-pool" => {
            let p = c15::pool();
            println!("off_subgroup={} torsion={} shifted_pks={}", p.off_subgroup.len(), p.torsion.len(), p.shifted_pks.len());
            for (spk, k) in &p.shifted_pks {
                let m = &p.msgs[3];
                let mut aug = spk.to_bytes().to_vec();
                aug.extend_from_slice(m);
                let sig = chia_bls::sign_raw(&p.sks[*k], &aug);
                let cache = chia_bls::BlsCache::default();
                println!(
                    "shifted key (outside subgroup): aggregate_verify={} verify={} BlsCache::aggregate_verify={}",
                    chia_bls::aggregate_verify(&sig, [(spk, m.as_slice())]),
                    chia_bls::verify(&sig, spk, m),
                    cache.aggregate_verify([(spk, m.as_slice())], &sig)
                );
            }
            for t in &p.torsion {
                let mut s = p.sigs[0][1].clone();
                s.aggregate(t);
                let gts = vec![&p.gts[0][1]];
                println!("torsion valid={} sum_valid={} verify_gt(sum)={} verify_gt(honest)={}", t.is_valid(), s.is_valid(),
                    chia_bls::aggregate_verify_gt(&s, gts.clone()), chia_bls::aggregate_verify_gt(&p.sigs[0][1], gts));
            }
        }
        "debug-collide" => {
            // search scalars a, s with fingerprint([a]G) == fingerprint([s]G + T) for the pool's
            // first G1 torsion point T (birthday search over two sets of n keys)
            let p = c15::pool();
            let n: u64 = args.get(2).and_then(|x| x.parse().ok()).unwrap_or(150_000);
            let t = p.g1_torsion[0].clone();
            let g = chia_bls::PublicKey::generator();
            let mut map = std::collections::HashMap::new();
            let mut cur = g.clone();
            for a in 1..=n {
                if a > 1000 {
                    map.insert(cur.get_fingerprint(), a);
                }
                cur += &g;
            }
            let mut cur = &g + &t;
            for s in 1..=n {
                if s > 1000 {
                    if let Some(a) = map.get(&cur.get_fingerprint()) {
                        println!("COLLIDE_A={a} COLLIDE_S={s} fingerprint={:08x} valid={}", cur.get_fingerprint(), cur.is_valid());
                    }
                }
                cur += &g;
            }
            println!("collide in pool: {}", p.collide.is_some());
        }
        "list" => {
            println!("C03\nC05\nC10\nC15\nC18");
        }
        "run" => {
            if args.len() < 3 {
                usage();
            }
            let id = args[2].clone();
            let mut tier = match std::env::var("VERIF_TIER").ok().as_deref() {
                Some("thorough") => Tier::Thorough,
                _ => Tier::Quick,
            };
            let mut tier_from_cli = false;
            let mut seed = std::env::var("VERIF_SEED")
                .ok()
                .and_then(|s| s.trim().parse::<i128>().ok())
                .map(|v| v as u64)
                .unwrap_or(DEFAULT_SEED);
            let mut runs = None;
            let mut workers = std::thread::available_parallelism().map(|n| n.get()).unwrap_or(4);
            let mut write_evidence = true;
            let mut print_digest = false;
            let mut i = 3;
            while i < args.len() {
                let need = |i: usize| -> &str {
                    if i + 1 >= args.len() {
                        usage();
                    }
                    &args[i + 1]
                };
                match args[i].as_str() {
                    "--tier" => {
                        tier = match need(i) {
                            "quick" => Tier::Quick,
                            "thorough" => Tier::Thorough,
                            _ => usage(),
                        };
                        tier_from_cli = true;
                        i += 1;
                    }
                    "--seed" => {
                        seed = need(i).parse::<i128>().map(|v| v as u64).unwrap_or_else(|_| usage());
                        i += 1;
                    }
                    "--runs" => {
                        runs = Some(need(i).parse::<u64>().unwrap_or_else(|_| usage()));
                        i += 1;
                    }
                    "--workers" => {
                        workers = need(i).parse::<usize>().unwrap_or_else(|_| usage());
                        i += 1;
                    }
                    "--verif-dir" => {
                        verif_dir = PathBuf::from(need(i));
                        i += 1;
                    }
                    "--no-evidence" => write_evidence = false,
                    "--print-digest" => print_digest = true,
                    _ => usage(),
                }
                i += 1;
            }
            let _ = tier_from_cli;
            let opt = Options { tier, seed, runs, workers, verif_dir, write_evidence, print_digest };
            let code = dispatch!(id.as_str(), run_one, &opt);
            std::process::exit(code);
        }
        "replay" => {
            if args.len() < 3 {
                usage();
            }
            let path = PathBuf::from(&args[2]);
            let mut i = 3;
            while i < args.len() {
                if args[i] == "--verif-dir" && i + 1 < args.len() {
                    verif_dir = PathBuf::from(&args[i + 1]);
                    i += 1;
                }
                i += 1;
            }
            let text = match std::fs::read_to_string(&path) {
                Ok(t) => t,
                Err(e) => {
                    eprintln!("HARNESS-ERROR: cannot read {}: {e}", path.display());
                    std::process::exit(2);
                }
            };
            let doc: serde_json::Value = match serde_json::from_str(&text) {
                Ok(d) => d,
                Err(e) => {
                    eprintln!("HARNESS-ERROR: {} is not JSON: {e}", path.display());
                    std::process::exit(2);
                }
            };
            let id = doc["property"].as_str().unwrap_or("").to_string();
            let code = dispatch!(id.as_str(), replay_one, &doc, &path, &verif_dir);
            std::process::exit(code);
        }
        _ => usage(),
    }
}
