//! Common core of the simulator: the engine interface, the seeded batch
//! runner, minimisation, replay files, known findings and evidence.

use crate::rng::{mix, splitmix64, Rng};
use serde::de::DeserializeOwned;
use serde::Serialize;
use serde_json::{json, Value};
use std::collections::{BTreeMap, HashSet};
use std::path::{Path, PathBuf};
use std::sync::atomic::{AtomicU64, Ordering};
use std::sync::Mutex;
use std::time::Instant;

#[derive(Clone, Copy, Debug, PartialEq, Eq)]
pub enum Tier {
    Quick,
    Thorough,
}

impl Tier {
    pub fn name(self) -> &'static str {
        match self {
            Tier::Quick => "quick",
            Tier::Thorough => "thorough",
        }
    }
}

#[derive(Clone, Debug)]
pub struct Violation {
    /// Specific, minimisation-stable identity of what failed (used to match
    /// known findings and to keep "the same violation" during shrinking).
    pub signature: String,
    pub step: usize,
    pub detail: String,
}

#[derive(Default, Clone, Debug)]
pub struct Counters {
    pub map: BTreeMap<&'static str, u64>,
}

impl Counters {
    pub fn inc(&mut self, k: &'static str) {
        *self.map.entry(k).or_insert(0) += 1;
    }
    pub fn add(&mut self, k: &'static str, n: u64) {
        *self.map.entry(k).or_insert(0) += n;
    }
    pub fn max(&mut self, k: &'static str, n: u64) {
        let e = self.map.entry(k).or_insert(0);
        if n > *e {
            *e = n;
        }
    }
    pub fn merge(&mut self, other: &Counters) {
        for (k, v) in &other.map {
            if k.starts_with("max.") || k.starts_with("span.max") {
                self.max(k, *v);
            } else if k.starts_with("span.min") {
                let e = self.map.entry(k).or_insert(u64::MAX);
                if *v < *e {
                    *e = *v;
                }
            } else {
                self.add(k, *v);
            }
        }
    }
}

pub struct RunOutput<C> {
    pub violation: Option<Violation>,
    /// digest of the run's event log: equal digests <=> same execution
    pub digest: u64,
    /// Some(key) if the run is non-trivial by the engine's rule; key identifies
    /// what makes it distinct
    pub nontrivial: Option<u64>,
    /// the case with every simulator decision made explicit (e.g. the recorded
    /// schedule); None when the case already is explicit
    pub resolved: Option<C>,
}

pub struct WorkerCtx {
    pub worker: usize,
    pub scratch: PathBuf,
}

pub struct EngineInfo {
    pub engine: &'static str,
    pub rule: &'static str,
    pub components_real: Vec<&'static str>,
    pub components_stub: Vec<&'static str>,
    pub assumptions: Vec<&'static str>,
    pub fault_kinds: Vec<&'static str>,
}

pub trait Engine: Sync {
    type Case: Serialize + DeserializeOwned + Clone + Send;
    fn id(&self) -> &'static str;
    fn default_runs(&self, tier: Tier) -> u64;
    fn info(&self) -> EngineInfo;
    /// Called once per process before any run (pools, hooks).
    fn init(&self) {}
    fn generate(&self, rng: &mut Rng, tier: Tier) -> Self::Case;
    fn execute(
        &self,
        case: &Self::Case,
        ctx: &WorkerCtx,
        counters: &mut Counters,
    ) -> RunOutput<Self::Case>;
    /// Candidate simplifications of a failing case, most aggressive first.
    fn shrink(&self, case: &Self::Case) -> Vec<Self::Case>;
    /// extra coverage keys computed from the merged counters
    fn extra_coverage(&self, _counters: &Counters) -> Value {
        json!({})
    }
}

pub struct Options {
    pub tier: Tier,
    pub seed: u64,
    pub runs: Option<u64>,
    pub workers: usize,
    pub verif_dir: PathBuf,
    pub write_evidence: bool,
    pub print_digest: bool,
}

pub const DEFAULT_SEED: u64 = 20_260_923;

fn tag_of(id: &str) -> u64 {
    let mut t = 0u64;
    for b in id.bytes() {
        t = t.wrapping_mul(131).wrapping_add(u64::from(b));
    }
    t
}

#[derive(Clone, Debug)]
pub struct Finding {
    pub property: String,
    pub signature: String,
    pub what: String,
}

/// `finding: property=<id> signature=<sig> :: <what fails>` lines; `fixed:` lines
/// are history only and suppress nothing.
pub fn load_known_findings(verif_dir: &Path) -> Vec<Finding> {
    let p = verif_dir.join("known_findings.txt");
    let Ok(text) = std::fs::read_to_string(p) else {
        return vec![];
    };
    let mut out = vec![];
    for line in text.lines() {
        let line = line.trim();
        let Some(rest) = line.strip_prefix("finding:") else {
            continue;
        };
        let (head, what) = match rest.split_once("::") {
            Some((h, w)) => (h.trim(), w.trim().to_string()),
            None => (rest.trim(), String::new()),
        };
        let mut property = String::new();
        let mut signature = String::new();
        for tok in head.split_whitespace() {
            if let Some(v) = tok.strip_prefix("property=") {
                property = v.to_string();
            } else if let Some(v) = tok.strip_prefix("signature=") {
                signature = v.to_string();
            }
        }
        if !property.is_empty() && !signature.is_empty() {
            out.push(Finding {
                property,
                signature,
                what,
            });
        }
    }
    out
}

struct Failing<C> {
    index: u64,
    run_seed: u64,
    case: C,
    violation: Violation,
    digest: u64,
    count: u64,
}

struct WorkerResult<C> {
    counters: Counters,
    distinct: HashSet<u64>,
    failing: BTreeMap<String, Failing<C>>,
    evaluations: u64,
    violations: u64,
    batch_digest: u64,
    sampled: Vec<(u64, u64)>,
}

pub fn minimise<E: Engine>(
    engine: &E,
    case: &E::Case,
    signature: &str,
    ctx: &WorkerCtx,
    budget: usize,
) -> (E::Case, usize) {
    let mut cur = case.clone();
    let mut spent = 0usize;
    let mut scratch = Counters::default();
    // minimisation is bounded in executions and in wall-clock time (it only affects how
    // small the replay is, never whether the violation is reported)
    let t0 = Instant::now();
    let max_secs: u64 = std::env::var("VERIF_MINIMISE_SECS").ok().and_then(|s| s.parse().ok()).unwrap_or(25);
    'outer: loop {
        let cands = engine.shrink(&cur);
        for cand in cands {
            if spent >= budget || t0.elapsed().as_secs() >= max_secs {
                break 'outer;
            }
            spent += 1;
            let out = engine.execute(&cand, ctx, &mut scratch);
            if let Some(v) = &out.violation {
                if v.signature == signature {
                    cur = out.resolved.unwrap_or(cand);
                    continue 'outer;
                }
            }
        }
        break;
    }
    (cur, spent)
}

pub fn write_replay<E: Engine>(
    engine: &E,
    dir: &Path,
    run_seed: u64,
    case: &E::Case,
    v: &Violation,
    digest: u64,
    minimise_execs: usize,
) -> PathBuf {
    std::fs::create_dir_all(dir).ok();
    let mut h = 0u64;
    for b in v.signature.bytes() {
        h = h.wrapping_mul(1_000_003).wrapping_add(u64::from(b));
    }
    let path = dir.join(format!("{}-{:016x}-{:08x}.json", engine.id(), run_seed, h & 0xffff_ffff));
    let doc = json!({
        "property": engine.id(),
        "engine": engine.info().engine,
        "run_seed": run_seed,
        "violation": {"signature": v.signature, "step": v.step, "detail": v.detail},
        "trace_digest": format!("{digest:016x}"),
        "minimise_executions": minimise_execs,
        "case": serde_json::to_value(case).expect("case to json"),
    });
    std::fs::write(&path, serde_json::to_string_pretty(&doc).unwrap()).expect("write replay");
    path
}

/// Execute a replay file. Returns process exit code.
pub fn replay<E: Engine>(engine: &E, doc: &Value, path: &Path, verif_dir: &Path) -> i32 {
    engine.init();
    let case: E::Case = match serde_json::from_value(doc["case"].clone()) {
        Ok(c) => c,
        Err(e) => {
            eprintln!("HARNESS-ERROR: cannot decode case in {}: {e}", path.display());
            return 2;
        }
    };
    let ctx = WorkerCtx {
        worker: 0,
        scratch: scratch_dir(verif_dir, 0),
    };
    let hang_secs: u64 = std::env::var("VERIF_HANG_SECS").ok().and_then(|s| s.parse().ok()).unwrap_or(150);
    let done = std::sync::atomic::AtomicBool::new(false);
    let out = std::thread::scope(|s| {
        let done = &done;
        let id = engine.id();
        let p = path.to_path_buf();
        s.spawn(move || {
            let t0 = Instant::now();
            while !done.load(Ordering::SeqCst) {
                std::thread::sleep(std::time::Duration::from_millis(200));
                if t0.elapsed().as_secs() >= hang_secs {
                    println!("replay: violation signature=hang:run_did_not_finish (no result within {hang_secs} s)");
                    println!("VIOLATION property={id} replay={}", p.display());
                    std::process::exit(1);
                }
            }
        });
        let mut c = Counters::default();
        let out = engine.execute(&case, &ctx, &mut c);
        done.store(true, Ordering::SeqCst);
        out
    });
    cleanup_scratch(verif_dir);
    let want_sig = doc["violation"]["signature"].as_str().unwrap_or("");
    let want_digest = doc["trace_digest"].as_str().unwrap_or("");
    match out.violation {
        Some(v) => {
            let same = v.signature == want_sig;
            let got_digest = format!("{:016x}", out.digest);
            println!(
                "replay: violation signature={} step={} digest={} ({}; digest {})",
                v.signature,
                v.step,
                got_digest,
                if same { "same as recorded" } else { "DIFFERENT from recorded" },
                if got_digest == want_digest { "matches" } else { "differs" }
            );
            println!("replay: detail: {}", v.detail);
            let known = load_known_findings(verif_dir);
            if known
                .iter()
                .any(|f| f.property == engine.id() && f.signature == v.signature)
            {
                println!("KNOWN-FINDING: property={} {}", engine.id(), v.signature);
                return 0;
            }
            println!("VIOLATION property={} replay={}", engine.id(), path.display());
            1
        }
        None => {
            println!("replay: no violation (recorded: {want_sig})");
            0
        }
    }
}

fn scratch_root(verif_dir: &Path) -> PathBuf {
    // per-process private scratch; tmpfs when available (the file path exercised
    // is the same: create, zstd write, close, open, zstd read), else under /verif/run
    let shm = Path::new("/dev/shm");
    let name = format!("verif-run-{}", std::process::id());
    if shm.is_dir() {
        let p = shm.join(&name);
        if std::fs::create_dir_all(&p).is_ok() {
            return p;
        }
    }
    verif_dir.join("run").join(name)
}

pub fn scratch_dir(verif_dir: &Path, worker: usize) -> PathBuf {
    let p = scratch_root(verif_dir).join(format!("w{worker}"));
    std::fs::create_dir_all(&p).ok();
    p
}

pub fn cleanup_scratch(verif_dir: &Path) {
    std::fs::remove_dir_all(scratch_root(verif_dir)).ok();
    let name = format!("verif-run-{}", std::process::id());
    std::fs::remove_dir_all(verif_dir.join("run").join(name)).ok();
}

/// Runs a batch. Returns the process exit code (0 held, 1 violation, 2 harness error).
pub fn run_batch<E: Engine>(engine: &E, opt: &Options) -> i32 {
    let t0 = Instant::now();
    engine.init();
    let id = engine.id();
    let tag = tag_of(id);
    let runs = opt.runs.unwrap_or_else(|| engine.default_runs(opt.tier));
    let workers = opt.workers.max(1);
    let next = AtomicU64::new(0);
    let chunk: u64 = if runs / (workers as u64) >= 4096 { 256 } else { 8 };
    let sample_stride = (runs / 24).max(1);
    let results: Mutex<Vec<WorkerResult<E::Case>>> = Mutex::new(vec![]);
    println!(
        "vsim: property={id} tier={} VERIF_SEED={} runs={runs} workers={workers}",
        opt.tier.name(),
        opt.seed
    );

    let inflight: Vec<AtomicU64> = (0..workers).map(|_| AtomicU64::new(0)).collect();
    let finished_runs = AtomicU64::new(0);
    let batch_done = std::sync::atomic::AtomicBool::new(false);
    let hang_secs: u64 = std::env::var("VERIF_HANG_SECS").ok().and_then(|s| s.parse().ok()).unwrap_or(150);

    std::thread::scope(|s| {
        // watchdog: code under test that never returns (and has no scheduling
        // point the simulator could use to detect it) must not hang the check
        {
            let inflight = &inflight;
            let finished_runs = &finished_runs;
            let batch_done = &batch_done;
            let verif_dir = opt.verif_dir.clone();
            let tier = opt.tier;
            let seed = opt.seed;
            s.spawn(move || {
                let mut last = 0u64;
                let mut since = Instant::now();
                loop {
                    std::thread::sleep(std::time::Duration::from_millis(500));
                    if batch_done.load(Ordering::SeqCst) {
                        return;
                    }
                    let now = finished_runs.load(Ordering::SeqCst);
                    if now != last {
                        last = now;
                        since = Instant::now();
                        continue;
                    }
                    if since.elapsed().as_secs() >= hang_secs {
                        let mut printed = false;
                        for w in inflight.iter() {
                            let v = w.load(Ordering::SeqCst);
                            if v == 0 {
                                continue;
                            }
                            let i = v - 1;
                            let run_seed = mix(seed, tag, i);
                            let mut rng = Rng::new(run_seed);
                            let case = engine.generate(&mut rng, tier);
                            let v = Violation {
                                signature: "hang:run_did_not_finish".into(),
                                step: 0,
                                detail: format!("run {i} did not finish within {hang_secs} s"),
                            };
                            let path = write_replay(engine, &verif_dir.join("replays"), run_seed, &case, &v, 0, 0);
                            println!("violation: signature=hang:run_did_not_finish run={i} seed={run_seed}");
                            println!("VIOLATION property={} replay={}", engine.id(), path.display());
                            printed = true;
                        }
                        if !printed {
                            eprintln!("HARNESS-ERROR: no progress for {hang_secs} s and no run in flight");
                            std::process::exit(2);
                        }
                        cleanup_scratch(&verif_dir);
                        std::process::exit(1);
                    }
                }
            });
        }
        let mut worker_handles = vec![];
        for w in 0..workers {
            let results = &results;
            let next = &next;
            let inflight = &inflight;
            let finished_runs = &finished_runs;
            let verif_dir = opt.verif_dir.clone();
            let tier = opt.tier;
            let seed = opt.seed;
            worker_handles.push(s.spawn(move || {
                let ctx = WorkerCtx {
                    worker: w,
                    scratch: scratch_dir(&verif_dir, w),
                };
                let mut r = WorkerResult::<E::Case> {
                    counters: Counters::default(),
                    distinct: HashSet::new(),
                    failing: BTreeMap::new(),
                    evaluations: 0,
                    violations: 0,
                    batch_digest: 0,
                    sampled: vec![],
                };
                loop {
                    let start = next.fetch_add(chunk, Ordering::Relaxed);
                    if start >= runs {
                        break;
                    }
                    let end = (start + chunk).min(runs);
                    for i in start..end {
                        let run_seed = mix(seed, tag, i);
                        let mut rng = Rng::new(run_seed);
                        let case = engine.generate(&mut rng, tier);
                        inflight[w].store(i + 1, Ordering::SeqCst);
                        let out = engine.execute(&case, &ctx, &mut r.counters);
                        inflight[w].store(0, Ordering::SeqCst);
                        finished_runs.fetch_add(1, Ordering::SeqCst);
                        r.evaluations += 1;
                        let mut x = out.digest ^ i.wrapping_mul(0x9E37_79B9_7F4A_7C15);
                        r.batch_digest = r.batch_digest.wrapping_add(splitmix64(&mut x));
                        if i % sample_stride == 0 {
                            r.sampled.push((i, out.digest));
                        }
                        if let Some(k) = out.nontrivial {
                            r.distinct.insert(k);
                        }
                        if let Some(v) = out.violation {
                            r.violations += 1;
                            let case = out.resolved.unwrap_or(case);
                            match r.failing.get_mut(&v.signature) {
                                Some(f) => {
                                    f.count += 1;
                                    if i < f.index {
                                        f.index = i;
                                        f.run_seed = run_seed;
                                        f.case = case;
                                        f.violation = v;
                                        f.digest = out.digest;
                                    }
                                }
                                None => {
                                    r.failing.insert(
                                        v.signature.clone(),
                                        Failing {
                                            index: i,
                                            run_seed,
                                            case,
                                            violation: v,
                                            digest: out.digest,
                                            count: 1,
                                        },
                                    );
                                }
                            }
                        }
                    }
                }
                results.lock().unwrap().push(r);
            }));
        }
        for h in worker_handles {
            let _ = h.join();
        }
        batch_done.store(true, Ordering::SeqCst);
    });

    // ---- reduce (order independent) ----
    let mut counters = Counters::default();
    let mut distinct: HashSet<u64> = HashSet::new();
    let mut failing: BTreeMap<String, Failing<E::Case>> = BTreeMap::new();
    let mut evaluations = 0;
    let mut violations = 0;
    let mut batch_digest = 0u64;
    let mut sampled: Vec<(u64, u64)> = vec![];
    for r in results.into_inner().unwrap() {
        counters.merge(&r.counters);
        distinct.extend(r.distinct);
        evaluations += r.evaluations;
        violations += r.violations;
        batch_digest = batch_digest.wrapping_add(r.batch_digest);
        sampled.extend(r.sampled);
        for (sig, f) in r.failing {
            match failing.get_mut(&sig) {
                Some(g) => {
                    let total = g.count + f.count;
                    if f.index < g.index {
                        *g = f;
                    }
                    g.count = total;
                }
                None => {
                    failing.insert(sig, f);
                }
            }
        }
    }
    sampled.sort_unstable();
    let main_wall = t0.elapsed().as_secs_f64();

    let ctx0 = WorkerCtx {
        worker: 0,
        scratch: scratch_dir(&opt.verif_dir, 0),
    };

    // ---- determinism self-check: re-run a sample of seeds, compare digests ----
    let mut det_checked = 0u64;
    let mut det_mismatch = 0u64;
    {
        let mut scratch_c = Counters::default();
        for (i, d) in sampled.iter().take(32) {
            let run_seed = mix(opt.seed, tag, *i);
            let mut rng = Rng::new(run_seed);
            let case = engine.generate(&mut rng, opt.tier);
            let out = engine.execute(&case, &ctx0, &mut scratch_c);
            det_checked += 1;
            if out.digest != *d {
                det_mismatch += 1;
                eprintln!(
                    "HARNESS-ERROR: run {i} (seed {run_seed}) is not deterministic: digest {:016x} then {:016x}",
                    d, out.digest
                );
            }
        }
    }

    // ---- samples ----
    let mut samples: Vec<Value> = vec![];
    {
        let mut scratch_c = Counters::default();
        let mut want = vec![0u64, 1, 2];
        want.retain(|i| *i < runs);
        for i in want {
            let run_seed = mix(opt.seed, tag, i);
            let mut rng = Rng::new(run_seed);
            let case = engine.generate(&mut rng, opt.tier);
            let out = engine.execute(&case, &ctx0, &mut scratch_c);
            let shown = out.resolved.as_ref().unwrap_or(&case);
            samples.push(json!({
                "run_index": i,
                "run_seed": run_seed,
                "case": serde_json::to_value(shown).unwrap(),
                "outcome": match &out.violation { Some(v) => format!("violation {}", v.signature), None => "held".to_string() },
                "nontrivial": out.nontrivial.is_some(),
                "trace_digest": format!("{:016x}", out.digest),
            }));
        }
    }

    // ---- violations: known findings, minimisation, replay files ----
    let known = load_known_findings(&opt.verif_dir);
    let replay_dir = opt.verif_dir.join("replays");
    let mut exit = 0;
    let mut reported = 0usize;
    let mut known_lines: Vec<String> = vec![];
    let mut violation_lines: Vec<String> = vec![];
    let mut by_index: Vec<&Failing<E::Case>> = failing.values().collect();
    by_index.sort_by_key(|f| f.index);
    // ---- regression cases: minimised replays of defects that were found and fixed
    // (or of seeded changes); re-executed on every run, they suppress nothing ----
    let mut regress_run = 0u64;
    {
        let dir = opt.verif_dir.join("regress").join(id);
        let mut files: Vec<PathBuf> = std::fs::read_dir(&dir)
            .map(|rd| rd.filter_map(|e| e.ok().map(|e| e.path())).collect())
            .unwrap_or_default();
        files.retain(|p| p.extension().map(|e| e == "json").unwrap_or(false));
        files.sort();
        let mut scratch_c = Counters::default();
        for p in files {
            let Ok(text) = std::fs::read_to_string(&p) else { continue };
            let Ok(doc) = serde_json::from_str::<Value>(&text) else {
                eprintln!("HARNESS-ERROR: regression case {} is not JSON", p.display());
                exit = 2;
                continue;
            };
            let Ok(case) = serde_json::from_value::<E::Case>(doc["case"].clone()) else {
                eprintln!("HARNESS-ERROR: regression case {} does not decode", p.display());
                exit = 2;
                continue;
            };
            regress_run += 1;
            let out = engine.execute(&case, &ctx0, &mut scratch_c);
            if let Some(v) = out.violation {
                if let Some(k) = known.iter().find(|k| k.property == id && k.signature == v.signature) {
                    known_lines.push(format!("KNOWN-FINDING: property={id} {} ({}; regression case {})", k.signature, k.what, p.display()));
                } else {
                    violation_lines.push(format!(
                        "violation: signature={} step={} detail={} (regression case)",
                        v.signature, v.step, v.detail
                    ));
                    violation_lines.push(format!("VIOLATION property={id} replay={}", p.display()));
                    exit = 1;
                }
            }
        }
    }
    for f in by_index {
        let sig = &f.violation.signature;
        if let Some(k) = known.iter().find(|k| k.property == id && &k.signature == sig) {
            known_lines.push(format!(
                "KNOWN-FINDING: property={id} {} ({}; {} runs, first at run {} seed {})",
                k.signature, k.what, f.count, f.index, f.run_seed
            ));
            continue;
        }
        if reported >= 12 {
            violation_lines.push(format!(
                "note: further unreported violation signature {sig} ({} runs)",
                f.count
            ));
            exit = 1;
            continue;
        }
        reported += 1;
        let (min_case, spent) = minimise(engine, &f.case, sig, &ctx0, 3000);
        // re-execute the minimised case once: it must reproduce
        let mut scratch_c = Counters::default();
        let out = engine.execute(&min_case, &ctx0, &mut scratch_c);
        match out.violation {
            Some(v) if &v.signature == sig => {
                let final_case = out.resolved.unwrap_or(min_case);
                let path = write_replay(engine, &replay_dir, f.run_seed, &final_case, &v, out.digest, spent);
                violation_lines.push(format!(
                    "violation: signature={sig} runs={} first_run={} seed={} step={} detail={}",
                    f.count, f.index, f.run_seed, v.step, v.detail
                ));
                violation_lines.push(format!("VIOLATION property={id} replay={}", path.display()));
                exit = 1;
            }
            _ => {
                // fall back to the unminimised case
                let out2 = engine.execute(&f.case, &ctx0, &mut scratch_c);
                match out2.violation {
                    Some(v) if &v.signature == sig => {
                        let final_case = out2.resolved.unwrap_or(f.case.clone());
                        let path = write_replay(engine, &replay_dir, f.run_seed, &final_case, &v, out2.digest, spent);
                        violation_lines.push(format!(
                            "violation: signature={sig} runs={} first_run={} seed={} (minimised form did not reproduce; unminimised kept) detail={}",
                            f.count, f.index, f.run_seed, v.detail
                        ));
                        violation_lines.push(format!("VIOLATION property={id} replay={}", path.display()));
                        exit = 1;
                    }
                    _ => {
                        eprintln!("HARNESS-ERROR: violation {sig} at run {} seed {} does not reproduce", f.index, f.run_seed);
                        if exit == 0 {
                            exit = 2;
                        }
                    }
                }
            }
        }
    }
    if det_mismatch > 0 && exit == 0 {
        exit = 2;
    }
    cleanup_scratch(&opt.verif_dir);

    let wall = t0.elapsed().as_secs_f64();
    let info = engine.info();
    let mut fault_counts = serde_json::Map::new();
    let mut probes = serde_json::Map::new();
    let mut other = serde_json::Map::new();
    for (k, v) in &counters.map {
        if let Some(n) = k.strip_prefix("fault.") {
            fault_counts.insert(n.to_string(), json!(v));
        } else if let Some(n) = k.strip_prefix("probe.") {
            probes.insert(n.to_string(), json!(v));
        } else {
            other.insert((*k).to_string(), json!(v));
        }
    }
    for k in &info.fault_kinds {
        if !fault_counts.contains_key(*k) {
            fault_counts.insert((*k).to_string(), json!(0));
        }
    }
    let zero_probes: Vec<String> = probes
        .iter()
        .filter(|(_, v)| v.as_u64() == Some(0))
        .map(|(k, _)| k.clone())
        .collect();
    let mut coverage = json!({
        "evaluations": evaluations,
        "distinct_nontrivial": distinct.len(),
        "rule": info.rule,
        "samples": samples,
        "runs_per_hour": if main_wall > 0.0 { (evaluations as f64 / main_wall * 3600.0) as u64 } else { 0 },
        "simulated_steps": counters.map.get("steps").copied().unwrap_or(0),
        "fault_counts": fault_counts,
        "probes": probes,
        "counters": other,
        "components": {"real": info.components_real, "stub": info.components_stub},
        "determinism_selfcheck": {"runs_reexecuted": det_checked, "digest_mismatches": det_mismatch},
        "batch_digest": format!("{batch_digest:016x}"),
        "workers": workers,
        "violating_runs": violations,
        "violation_signatures": failing.iter().map(|(k, f)| json!({"signature": k, "runs": f.count})).collect::<Vec<_>>(),
        "known_findings_matched": known_lines.len(),
        "regression_cases_replayed": regress_run,
    });
    if let (Value::Object(c), Value::Object(extra)) = (&mut coverage, engine.extra_coverage(&counters)) {
        for (k, v) in extra {
            c.insert(k, v);
        }
    }
    let unlisted_signatures = failing
        .keys()
        .filter(|s| !known.iter().any(|k| k.property == id && &&k.signature == s))
        .count();
    let evidence = json!({
        "property_id": id,
        "tier": opt.tier.name(),
        "seed": opt.seed,
        "level": "exploration",
        "coverage": coverage,
        "assumptions": info.assumptions,
        "wall_s": wall,
        "violations": unlisted_signatures,
    });
    if opt.write_evidence {
        let dir = opt.verif_dir.join("evidence");
        std::fs::create_dir_all(&dir).ok();
        let p = dir.join(format!("{id}.json"));
        if let Err(e) = std::fs::write(&p, serde_json::to_string_pretty(&evidence).unwrap()) {
            eprintln!("HARNESS-ERROR: cannot write evidence {}: {e}", p.display());
            if exit == 0 {
                exit = 2;
            }
        }
    }

    println!(
        "vsim: {evaluations} runs in {main_wall:.1}s ({:.0}/h), distinct_nontrivial={}, violating_runs={violations}, determinism_selfcheck={det_checked} reruns/{det_mismatch} mismatches, batch_digest={batch_digest:016x}",
        evaluations as f64 / main_wall.max(1e-9) * 3600.0,
        distinct.len()
    );
    if opt.print_digest {
        println!("BATCH-DIGEST {batch_digest:016x}");
    }
    for (k, v) in &counters.map {
        println!("  {k} = {v}");
    }
    if opt.tier == Tier::Thorough && !zero_probes.is_empty() {
        println!("warning: probes never hit: {}", zero_probes.join(", "));
    }
    let mut seen_known: HashSet<String> = HashSet::new();
    for l in known_lines {
        let key = l.split(" (").next().unwrap_or("").to_string();
        if !seen_known.insert(key) {
            continue;
        }
        println!("{l}");
    }
    for l in violation_lines {
        println!("{l}");
    }
    exit
}

/// Generic helper: candidates obtained by deleting chunks of a vector.
pub fn removal_candidates<T: Clone>(v: &[T]) -> Vec<Vec<T>> {
    let n = v.len();
    let mut out = vec![];
    if n == 0 {
        return out;
    }
    let mut size = n / 2;
    while size >= 1 {
        let mut start = 0;
        while start < n {
            let end = (start + size).min(n);
            let mut c = Vec::with_capacity(n - (end - start));
            c.extend_from_slice(&v[..start]);
            c.extend_from_slice(&v[end..]);
            out.push(c);
            start = end;
        }
        if size == 1 {
            break;
        }
        size /= 2;
    }
    out
}
