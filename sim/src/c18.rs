//! C18 — DataLayer MerkleBlob as an authenticated map under histories with
//! failing operations and restarts (histsim).
//!
//! Durable state = blob bytes; volatile state = the BlockStatusCache index. A
//! restart throws the object away and rebuilds it from the bytes alone (in
//! memory, or through the real zstd file path).

use crate::core::*;
use crate::rng::{Digest, Rng};
use chia_datalayer::{
    BreadthFirstIterator, Hash, InsertLocation, KeyId, LeftChildFirstIterator, MerkleBlob, Node,
    ParentFirstIterator, ProofOfInclusion, Side, TreeIndex, ValueId, BLOCK_SIZE,
};
use chia_protocol::Bytes32;
use serde::{Deserialize, Serialize};
use serde_json::{json, Value};
use sha2::{Digest as _, Sha256};
use std::collections::{BTreeMap, BTreeSet};
use std::panic::{catch_unwind, AssertUnwindSafe};

#[derive(Serialize, Deserialize, Clone, Debug, PartialEq)]
pub enum Loc {
    Auto,
    AsRoot,
    /// at the live leaf holding the rank-th key (sorted order, modulo size)
    AtKey { rank: u32, right: bool },
    /// block index = number of blocks + beyond
    OutOfRange { beyond: u32 },
    /// the root block when it is an internal node (>= 2 leaves), else out of range
    AtInternal,
    /// at the leaf of the most recently added key that is still present (builds
    /// degenerate, very deep trees), falling back to the smallest key
    AtNewest { right: bool },
    /// a block that is not part of the tree any more (freed by a delete; it still holds
    /// the bytes of the node that used to live there); falls back to out-of-range when
    /// there is no free block
    AtFreed { nth: u32 },
}

#[derive(Serialize, Deserialize, Clone, Debug, PartialEq)]
pub enum Op {
    Insert { key: i64, value: i64, hash: u64, loc: Loc },
    Upsert { key: i64, value: i64, hash: u64 },
    Delete { key: i64 },
    Batch { items: Vec<(i64, i64, u64)> },
    /// batch_insert of n generated items (key base+i, value i, hash id hash_base+i)
    BulkBatch { n: u32, base: i64, hash_base: u64 },
    /// n single inserts (key base+i, value i, hash id hash_base+i), each next to the
    /// previously inserted leaf: a chain of depth n
    ChainBuild { n: u32, base: i64, hash_base: u64, right: bool },
    Lazy,
    Proofs,
    RestartMem,
    RestartFile,
    /// a second party rebuilds the tree from the store's file through the node-map path
    /// (`collect_and_return_from_merkle_blob` + `build_blob_from_node_list`) and carries on
    /// from the rebuilt blob; only defined for a non-empty tree with clean, pairwise distinct
    /// hashes and at most 60 levels (a no-op otherwise)
    #[serde(alias = "RestartDelta")]
    RestartRebuild,
}

impl Op {
    fn kind(&self) -> &'static str {
        match self {
            Op::Insert { .. } => "insert",
            Op::Upsert { .. } => "upsert",
            Op::Delete { .. } => "delete",
            Op::Batch { .. } => "batch",
            Op::BulkBatch { .. } => "batch",
            Op::ChainBuild { .. } => "insert_chain",
            Op::Lazy => "lazy",
            Op::Proofs => "proofs",
            Op::RestartMem => "restart_mem",
            Op::RestartFile => "restart_file",
            Op::RestartRebuild => "restart_rebuild",
        }
    }
    fn is_restart(&self) -> bool {
        matches!(self, Op::RestartMem | Op::RestartFile | Op::RestartRebuild)
    }
}

#[derive(Serialize, Deserialize, Clone, Debug)]
pub struct Case {
    /// false: only valid operations and no mid-history restarts (fault-free batch)
    pub faults: bool,
    pub ops: Vec<Op>,
}

/// ids with bit 62 set are *derived*: the leaf hash is the internal-node hash of the two leaf
/// hashes whose (31-bit) ids are packed into it — a caller-chosen leaf hash that coincides with
/// the hash of an internal node elsewhere in the tree
const DERIVED: u64 = 1 << 62;

pub fn derived_hash_id(a: u64, b: u64) -> Option<u64> {
    if a < (1 << 31) && b < (1 << 31) {
        Some(DERIVED | (a << 31) | b)
    } else {
        None
    }
}

pub fn hash_of(id: u64) -> Hash {
    if id & DERIVED != 0 && id >> 63 == 0 {
        let a = (id >> 31) & 0x7fff_ffff;
        let b = id & 0x7fff_ffff;
        return ref_internal_hash(&hash_of(a), &hash_of(b));
    }
    let bytes: [u8; 32] = match id {
        0 => [0u8; 32],
        1 => [0xffu8; 32],
        _ => {
            let mut h = Sha256::new();
            h.update(b"verif-leaf");
            h.update(id.to_le_bytes());
            h.finalize().into()
        }
    };
    Hash(Bytes32::new(bytes))
}

fn ref_internal_hash(l: &Hash, r: &Hash) -> Hash {
    let mut h = Sha256::new();
    h.update([2u8]);
    h.update(l.0.as_ref() as &[u8]);
    h.update(r.0.as_ref() as &[u8]);
    let out: [u8; 32] = h.finalize().into();
    Hash(Bytes32::new(out))
}

/// The reference model: a plain map plus the set of leaf hashes in use.
#[derive(Default, Clone)]
struct Model {
    kv: BTreeMap<i64, (i64, u64)>,
    hashes: BTreeMap<u64, i64>,
    newest: Option<i64>,
}

fn bulk_items(n: u32, base: i64, hash_base: u64) -> Vec<(i64, i64, u64)> {
    (0..n).map(|i| (base.wrapping_add(i64::from(i)), i64::from(i), hash_base + u64::from(i))).collect()
}

#[derive(Debug, Clone, PartialEq)]
enum Expect {
    Ok,
    Err(&'static str),
}

impl Model {
    fn predict(&self, op: &Op) -> Expect {
        match op {
            Op::Insert { key, hash, loc, .. } => {
                if self.kv.contains_key(key) {
                    return Expect::Err("dup_key");
                }
                if self.hashes.contains_key(hash) {
                    return Expect::Err("dup_hash");
                }
                match loc {
                    Loc::Auto => Expect::Ok,
                    Loc::AsRoot => {
                        if self.kv.is_empty() {
                            Expect::Ok
                        } else {
                            Expect::Err("asroot_nonempty")
                        }
                    }
                    Loc::AtKey { .. } | Loc::AtNewest { .. } => {
                        if self.kv.is_empty() {
                            Expect::Err("bad_location")
                        } else {
                            Expect::Ok
                        }
                    }
                    Loc::OutOfRange { .. } | Loc::AtInternal | Loc::AtFreed { .. } => Expect::Err("bad_location"),
                }
            }
            Op::Upsert { key, hash, .. } => match self.hashes.get(hash) {
                Some(owner) if owner != key => {
                    if self.kv.contains_key(key) {
                        Expect::Err("foreign_hash")
                    } else {
                        Expect::Err("dup_hash")
                    }
                }
                _ => Expect::Ok,
            },
            Op::Delete { key } => {
                if self.kv.contains_key(key) {
                    Expect::Ok
                } else {
                    Expect::Err("unknown_key")
                }
            }
            Op::BulkBatch { n, base, hash_base } | Op::ChainBuild { n, base, hash_base, .. } => {
                self.predict(&Op::Batch { items: bulk_items(*n, *base, *hash_base) })
            }
            Op::Batch { items } => {
                let mut ks = BTreeSet::new();
                let mut hs = BTreeSet::new();
                let mut reason: Option<&'static str> = None;
                let note = |r: &'static str, rank: u8, cur: &mut Option<&'static str>| {
                    let cur_rank = match *cur {
                        None => 9,
                        Some("dup_key_existing") => 0,
                        Some("dup_key_internal") => 1,
                        Some("dup_hash_existing") => 2,
                        Some(_) => 3,
                    };
                    if rank < cur_rank {
                        *cur = Some(r);
                    }
                };
                for (k, _, h) in items {
                    if self.kv.contains_key(k) {
                        note("dup_key_existing", 0, &mut reason);
                    }
                    if !ks.insert(*k) {
                        note("dup_key_internal", 1, &mut reason);
                    }
                    if self.hashes.contains_key(h) {
                        note("dup_hash_existing", 2, &mut reason);
                    }
                    if !hs.insert(*h) {
                        note("dup_hash_internal", 3, &mut reason);
                    }
                }
                match reason {
                    Some(r) => Expect::Err(r),
                    None => Expect::Ok,
                }
            }
            Op::Lazy | Op::Proofs | Op::RestartMem | Op::RestartFile | Op::RestartRebuild => Expect::Ok,
        }
    }

    fn apply(&mut self, op: &Op) {
        match op {
            Op::Insert { key, value, hash, .. } => {
                self.kv.insert(*key, (*value, *hash));
                self.hashes.insert(*hash, *key);
                self.newest = Some(*key);
            }
            Op::BulkBatch { n, base, hash_base } => {
                self.apply(&Op::Batch { items: bulk_items(*n, *base, *hash_base) });
            }
            Op::ChainBuild { n, base, hash_base, .. } => {
                let items = bulk_items(*n, *base, *hash_base);
                self.apply(&Op::Batch { items: items.clone() });
                if let Some(last) = items.last() {
                    self.newest = Some(last.0);
                }
            }
            Op::Upsert { key, value, hash } => {
                if let Some((_, old)) = self.kv.get(key) {
                    let old = *old;
                    self.hashes.remove(&old);
                }
                self.kv.insert(*key, (*value, *hash));
                self.hashes.insert(*hash, *key);
            }
            Op::Delete { key } => {
                if let Some((_, h)) = self.kv.remove(key) {
                    self.hashes.remove(&h);
                }
                if self.newest == Some(*key) {
                    self.newest = None;
                }
            }
            Op::Batch { items } => {
                for (k, v, h) in items {
                    self.kv.insert(*k, (*v, *h));
                    self.hashes.insert(*h, *k);
                }
            }
            _ => {}
        }
    }
}

fn panic_msg(e: &Box<dyn std::any::Any + Send>) -> String {
    if let Some(s) = e.downcast_ref::<&str>() {
        (*s).to_string()
    } else if let Some(s) = e.downcast_ref::<String>() {
        s.clone()
    } else {
        "panic".to_string()
    }
}

fn guard<T>(f: impl FnOnce() -> T) -> Result<T, String> {
    catch_unwind(AssertUnwindSafe(f)).map_err(|e| panic_msg(&e))
}

/// Independent bottom-up recomputation over the tree as read through `get_node`.
/// Returns (root hash, leaves) or a description of what is structurally wrong.
/// Iterative (explicit stack): chains thousands of levels deep are part of the workload.
fn recompute(blob: &MerkleBlob) -> Result<Option<(Hash, Vec<(i64, i64, Hash)>)>, String> {
    let nblocks = blob.read_blob().len() / BLOCK_SIZE;
    if nblocks == 0 {
        return Ok(None);
    }
    let mut leaves = vec![];
    let mut visited = 0usize;
    // (index, parent it was reached from, children already done)
    let mut stack: Vec<(TreeIndex, Option<TreeIndex>, bool)> = vec![(TreeIndex(0), None, false)];
    // hashes of finished subtrees, in post-order
    let mut done: Vec<Hash> = vec![];
    while let Some((index, parent, expanded)) = stack.pop() {
        let node = blob.get_node(index).map_err(|e| format!("get_node({index}): {e}"))?;
        if !expanded {
            visited += 1;
            if visited > nblocks {
                return Err("cycle or more reachable nodes than blocks".into());
            }
            if node.parent().0 != parent {
                return Err(format!("node {index} has parent {:?}, reached from {:?}", node.parent().0, parent));
            }
        }
        match node {
            Node::Leaf(l) => {
                leaves.push((l.key.0, l.value.0, l.hash));
                done.push(l.hash);
            }
            Node::Internal(n) => {
                if expanded {
                    let rh = done.pop().ok_or("internal error: hash stack")?;
                    let lh = done.pop().ok_or("internal error: hash stack")?;
                    let want = ref_internal_hash(&lh, &rh);
                    if want != n.hash {
                        return Err(format!("internal node {index} stores a hash that is not sha256(2|left|right)"));
                    }
                    done.push(want);
                } else {
                    stack.push((index, parent, true));
                    stack.push((n.right, Some(index), false));
                    stack.push((n.left, Some(index), false));
                }
            }
        }
    }
    let root = done.pop().ok_or("internal error: no root hash")?;
    Ok(Some((root, leaves)))
}

fn verify_proof_independently(p: &ProofOfInclusion, root: &Hash, leaf: &Hash) -> Result<(), String> {
    if &p.node_hash != leaf {
        return Err("proof starts at a hash that is not the key's leaf hash".into());
    }
    let mut cur = p.node_hash;
    for layer in &p.layers {
        let c = match layer.other_hash_side {
            Side::Left => ref_internal_hash(&layer.other_hash, &cur),
            Side::Right => ref_internal_hash(&cur, &layer.other_hash),
        };
        if c != layer.combined_hash {
            return Err("a proof layer's combined hash is not the hash of its children".into());
        }
        cur = c;
    }
    if &cur != root {
        return Err("proof does not end in the recomputed root".into());
    }
    Ok(())
}

#[derive(PartialEq, Debug, Clone)]
enum RootState {
    Empty,
    Clean(Hash),
    Err(String),
}

fn root_state(blob: &MerkleBlob) -> RootState {
    match blob.get_hash_at_index(TreeIndex(0)) {
        Ok(None) => RootState::Empty,
        Ok(Some(h)) => RootState::Clean(h),
        Err(e) => RootState::Err(variant_name(&e)),
    }
}

fn variant_name(e: &chia_datalayer::Error) -> String {
    let s = format!("{e:?}");
    s.split(|c: char| !c.is_alphanumeric()).next().unwrap_or("").to_string()
}

struct Fail {
    sig: String,
    detail: String,
}

fn fail(sig: String, detail: String) -> Fail {
    Fail { sig, detail }
}

/// Invariants that must hold after every step.
fn check_state(blob: &MerkleBlob, model: &Model, after: &str) -> Result<(), Fail> {
    // (3) content equals the model
    let kv = guard(|| blob.get_keys_values())
        .map_err(|p| fail(format!("panic:get_keys_values:after_{after}"), p))?
        .map_err(|e| fail(format!("content_unreadable:after_{after}"), e.to_string()))?;
    let got: BTreeMap<i64, i64> = kv.iter().map(|(k, v)| (k.0, v.0)).collect();
    let want: BTreeMap<i64, i64> = model.kv.iter().map(|(k, (v, _))| (*k, *v)).collect();
    if got != want {
        return Err(fail(
            format!("content_mismatch:after_{after}"),
            format!("blob has {got:?}, model has {want:?}"),
        ));
    }
    // (4) integrity
    match guard(|| blob.check_integrity()) {
        Err(p) => return Err(fail(format!("panic:check_integrity:after_{after}"), p)),
        Ok(Err(e)) => {
            return Err(fail(
                format!("integrity:after_{after}:{}", variant_name(&e)),
                e.to_string(),
            ))
        }
        Ok(Ok(())) => {}
    }
    // lookup by leaf hash is part of the map's content
    // every key for small trees, an evenly spaced sample of at most 16 otherwise
    let n = model.kv.len();
    let stride = (n / 16).max(1);
    for (k, (v, h)) in model.kv.iter().step_by(stride) {
        match guard(|| blob.get_node_by_hash(hash_of(*h))) {
            Err(p) => return Err(fail(format!("panic:get_node_by_hash:after_{after}"), p)),
            Ok(Ok((gk, gv))) if gk.0 == *k && gv.0 == *v => {}
            Ok(other) => {
                return Err(fail(
                    format!("hash_lookup_mismatch:after_{after}"),
                    format!("leaf hash of key {k} resolves to {other:?}"),
                ))
            }
        }
    }
    Ok(())
}


/// Every other read-only view of the blob must tell the same story as the model: the tree as
/// reachable from the root through `get_node` (no use of the volatile index), the key index,
/// the per-key leaf lookup, the hash->index views and the lineage of each leaf. Structure only;
/// internal hashes are checked after `calculate_lazy_hashes` (check_hashes).
fn check_views(blob: &MerkleBlob, model: &Model, after: &str) -> Result<(), Fail> {
    let n = model.kv.len();
    let nblocks = blob.read_blob().len() / BLOCK_SIZE;
    let mism = |what: &str, detail: String| fail(format!("view_mismatch:{what}:after_{after}"), detail);
    // unknown keys / hashes are unknown to every view
    let absent_key = (0..).map(|i| 7_777_777_i64 + i).find(|k| !model.kv.contains_key(k)).unwrap();
    match guard(|| (blob.get_key_index(KeyId(absent_key)).is_ok(), blob.get_leaf_by_key(KeyId(absent_key)).is_ok(), blob.get_proof_of_inclusion(KeyId(absent_key)).is_ok())) {
        Err(p) => return Err(fail(format!("panic:views_absent_key:after_{after}"), p)),
        Ok((false, false, false)) => {}
        Ok(o) => return Err(mism("absent_key_found", format!("key {absent_key} is not in the map but (index, leaf, proof) lookups succeed: {o:?}"))),
    }
    let absent_hash = (0..).map(|i| 0xFFFF_0000_0000_u64 + i).find(|h| !model.hashes.contains_key(h)).unwrap();
    match guard(|| blob.get_node_by_hash(hash_of(absent_hash)).is_ok()) {
        Err(p) => return Err(fail(format!("panic:views_absent_hash:after_{after}"), p)),
        Ok(false) => {}
        Ok(true) => return Err(mism("absent_hash_found", "a leaf hash that is not in the map resolves to a key".into())),
    }
    if n > 64 {
        return Ok(());
    }
    // (a) the tree as reachable from the root
    // internal nodes met by the walk: (index, left, right), in pre-order
    let mut internals: Vec<(TreeIndex, TreeIndex, TreeIndex)> = vec![];
    let walked: Result<Vec<(TreeIndex, i64, i64, Hash)>, String> = guard(|| {
        let mut out = vec![];
        if nblocks == 0 {
            return Ok(out);
        }
        let mut stack = vec![(TreeIndex(0), None::<TreeIndex>)];
        let mut visited = 0usize;
        while let Some((i, parent)) = stack.pop() {
            visited += 1;
            if visited > nblocks {
                return Err("cycle or more reachable nodes than blocks".to_string());
            }
            let node = blob.get_node(i).map_err(|e| format!("get_node({i}): {e}"))?;
            if node.parent().0 != parent {
                return Err(format!("node {i} has parent {:?}, reached from {parent:?}", node.parent().0));
            }
            match blob.get_parent_index(i) {
                Ok(p) if p.0 == parent => {}
                other => return Err(format!("get_parent_index({i}) = {other:?}, reached from {parent:?}")),
            }
            match node {
                Node::Leaf(l) => out.push((i, l.key.0, l.value.0, l.hash)),
                Node::Internal(x) => {
                    internals.push((i, x.left, x.right));
                    stack.push((x.right, Some(i)));
                    stack.push((x.left, Some(i)));
                }
            }
        }
        Ok(out)
    })
    .map_err(|p| fail(format!("panic:views_walk:after_{after}"), p))?;
    let walked = walked.map_err(|e| mism("tree_structure", e))?;
    let got: BTreeMap<i64, (i64, [u8; 32])> = walked.iter().map(|(_, k, v, h)| (*k, (*v, h.0.to_bytes()))).collect();
    let want: BTreeMap<i64, (i64, [u8; 32])> = model.kv.iter().map(|(k, (v, h))| (*k, (*v, hash_of(*h).0.to_bytes()))).collect();
    if got != want || walked.len() != n {
        return Err(mism("tree_leaves", format!("walking the tree from the root finds {} leaves {:?}, the model has {:?}", walked.len(), got.iter().map(|(k, (v, _))| (*k, *v)).collect::<Vec<_>>(), model.kv.iter().map(|(k, (v, _))| (*k, *v)).collect::<Vec<_>>())));
    }
    // (b) leaf-only hash view and full hash views
    let (leaf_hi, all_hi, all_h) = guard(|| (blob.get_hashes_indexes(true), blob.get_hashes_indexes(false), blob.get_hashes()))
        .map_err(|p| fail(format!("panic:get_hashes:after_{after}"), p))?;
    let leaf_hi = leaf_hi.map_err(|e| mism("get_hashes_indexes", e.to_string()))?;
    let all_hi = all_hi.map_err(|e| mism("get_hashes_indexes", e.to_string()))?;
    let all_h = all_h.map_err(|e| mism("get_hashes", e.to_string()))?;
    if leaf_hi.len() != n {
        return Err(mism("leaf_hashes", format!("get_hashes_indexes(leafs_only) has {} entries for {n} leaves", leaf_hi.len())));
    }
    for (i, k, v, h) in &walked {
        if leaf_hi.get(h) != Some(i) {
            return Err(mism("leaf_hashes", format!("leaf hash of key {k} maps to {:?}, the leaf is at {i}", leaf_hi.get(h))));
        }
        // (a leaf hash may coincide with an internal node's hash, so the full view may point at
        // either node; that it points at a node carrying the hash is checked below)
        if !all_hi.contains_key(h) || !all_h.contains(h) {
            return Err(mism("all_hashes", format!("leaf hash of key {k} missing from get_hashes/get_hashes_indexes")));
        }
        // (c) per-key lookups
        let r = guard(|| (blob.get_key_index(KeyId(*k)), blob.get_leaf_by_key(KeyId(*k))))
            .map_err(|p| fail(format!("panic:get_leaf_by_key:after_{after}"), p))?;
        match r {
            (Ok(ki), Ok((li, leaf, block)))
                if ki == *i && li == *i && leaf.key.0 == *k && leaf.value.0 == *v && leaf.hash == *h && block.node == Node::Leaf(leaf) => {}
            other => return Err(mism("leaf_by_key", format!("key {k} (leaf at {i}): lookups give {other:?}"))),
        }
        // (d) lineage from the leaf to the root
        let lin = guard(|| (blob.get_lineage_with_indexes(*i), blob.get_lineage_indexes(*i)))
            .map_err(|p| fail(format!("panic:get_lineage:after_{after}"), p))?;
        let (lin, lin_idx) = match lin {
            (Ok(a), Ok(b)) => (a, b),
            other => return Err(mism("lineage", format!("key {k}: {other:?}"))),
        };
        let ok = !lin.is_empty()
            && lin[0].0 == *i
            && lin.last().map(|(x, nd)| *x == TreeIndex(0) && nd.parent().0.is_none()) == Some(true)
            && lin.iter().map(|(x, _)| *x).collect::<Vec<_>>() == lin_idx
            && lin.windows(2).all(|w| {
                w[0].1.parent().0 == Some(w[1].0)
                    && matches!(w[1].1, Node::Internal(x) if x.left == w[0].0 || x.right == w[0].0)
            })
            && lin.iter().all(|(x, nd)| blob.get_node(*x).ok() == Some(*nd));
        let ok = ok
            && match guard(|| blob.get_lineage_blocks_with_indexes(*i)) {
                Ok(Ok(bl)) => bl.len() == lin.len() && bl.iter().zip(lin.iter()).all(|((bi, b), (x, nd))| bi == x && b.node == *nd),
                _ => false,
            };
        if !ok {
            return Err(mism("lineage", format!("key {k}: lineage {:?} is not the path from leaf {i} to the root", lin_idx)));
        }
    }
    // (e) the three tree iterators over the serialized bytes, from the root and from a subtree
    check_iterators(blob, &walked, &internals, None).map_err(|(w, d)| match w {
        "panic" => fail(format!("panic:iterators:after_{after}"), d),
        w => mism(w, d),
    })?;
    if let Some((sub, _, _)) = internals.get(internals.len() / 2) {
        check_iterators(blob, &walked, &internals, Some(*sub)).map_err(|(w, d)| match w {
            "panic" => fail(format!("panic:iterators:after_{after}"), d),
            w => mism(w, d),
        })?;
    }
    if let Some((leaf, _, _, _)) = walked.get(walked.len() / 3) {
        check_iterators(blob, &walked, &internals, Some(*leaf)).map_err(|(w, d)| match w {
            "panic" => fail(format!("panic:iterators:after_{after}"), d),
            w => mism(w, d),
        })?;
    }
    // every entry of the full view points at a node carrying that hash
    let internal = n.saturating_sub(1);
    if all_hi.len() > n + internal || all_h.len() != all_hi.len() {
        return Err(mism("all_hashes", format!("{} / {} hashes listed for {n} leaves", all_hi.len(), all_h.len())));
    }
    for (h, i) in &all_hi {
        match blob.get_node(*i) {
            Ok(nd) if nd.hash() == *h && all_h.contains(h) => {}
            other => return Err(mism("all_hashes", format!("hash listed at index {i} but the node there is {other:?}"))),
        }
    }
    Ok(())
}

/// The iterators of `iterators.rs` read the serialized bytes directly. Started at `from` (the
/// root when None) each must yield, without an error item, exactly the nodes of that subtree
/// (`BreadthFirstIterator`: exactly its leaves), each with the block stored at that index, in the
/// order its documentation states: left-child-first = left sibling first and children before
/// parents; parent-first = left sibling first and parents before children; breadth-first =
/// left sibling first and depth never decreasing.
fn check_iterators(
    blob: &MerkleBlob,
    walked: &[(TreeIndex, i64, i64, Hash)],
    internals: &[(TreeIndex, TreeIndex, TreeIndex)],
    from: Option<TreeIndex>,
) -> Result<(), (&'static str, String)> {
    let bytes = blob.read_blob();
    let children: BTreeMap<u32, (TreeIndex, TreeIndex)> = internals.iter().map(|(i, l, r)| (i.0, (*l, *r))).collect();
    let leaf_set: BTreeSet<u32> = walked.iter().map(|(i, ..)| i.0).collect();
    // the subtree under `from`, with depths
    let mut depth: BTreeMap<u32, u32> = BTreeMap::new();
    if !leaf_set.is_empty() {
        let mut stack = vec![(from.unwrap_or(TreeIndex(0)), 0u32)];
        while let Some((i, d)) = stack.pop() {
            depth.insert(i.0, d);
            if let Some((l, r)) = children.get(&i.0) {
                stack.push((*l, d + 1));
                stack.push((*r, d + 1));
            }
        }
    }
    type Items = Vec<Result<(TreeIndex, chia_datalayer::Block), chia_datalayer::Error>>;
    let collected = guard(|| {
        let a: Items = LeftChildFirstIterator::new(bytes, from).take(depth.len() + 2).collect();
        let b: Items = ParentFirstIterator::new(bytes, from).take(depth.len() + 2).collect();
        let c: Items = BreadthFirstIterator::new(bytes, from).take(depth.len() + 2).collect();
        (a, b, c)
    })
    .map_err(|p| ("panic", p))?;
    let (lcf, pf, bf) = collected;
    for (name, items, leaves_only) in [("left_child_first", lcf, false), ("parent_first", pf, false), ("breadth_first", bf, true)] {
        let what: &'static str = match name {
            "left_child_first" => "iterator_left_child_first",
            "parent_first" => "iterator_parent_first",
            _ => "iterator_breadth_first",
        };
        let mut pos: BTreeMap<u32, usize> = BTreeMap::new();
        let mut last_depth = 0u32;
        for (n, it) in items.iter().enumerate() {
            let (i, block) = match it {
                Ok(x) => x,
                Err(e) => return Err((what, format!("from {from:?}: item {n} is an error: {e}"))),
            };
            let Some(d) = depth.get(&i.0) else {
                return Err((what, format!("from {from:?}: yields index {i}, which is not in the subtree")));
            };
            if pos.insert(i.0, n).is_some() {
                return Err((what, format!("from {from:?}: yields index {i} twice")));
            }
            if blob.get_node(*i).ok() != Some(block.node) {
                return Err((what, format!("from {from:?}: block yielded for index {i} is not the node stored there")));
            }
            if leaves_only {
                if !leaf_set.contains(&i.0) {
                    return Err((what, format!("from {from:?}: yields internal node {i}")));
                }
                if *d < last_depth {
                    return Err((what, format!("from {from:?}: depth decreases at index {i}")));
                }
                last_depth = *d;
            }
        }
        let expected = if leaves_only { depth.keys().filter(|i| leaf_set.contains(i)).count() } else { depth.len() };
        if pos.len() != expected {
            return Err((what, format!("from {from:?}: yields {} nodes, the subtree has {expected}", pos.len())));
        }
        if !leaves_only {
            for (i, (l, r)) in &children {
                let (Some(pi), Some(pl), Some(pr)) = (pos.get(i), pos.get(&l.0), pos.get(&r.0)) else { continue };
                let ok = if name == "left_child_first" { pl < pr && pr < pi } else { pi < pl && pl < pr };
                if !ok {
                    return Err((what, format!("from {from:?}: order of node {i} and its children {l}, {r} is ({pi}, {pl}, {pr})")));
                }
            }
        }
    }
    Ok(())
}

/// Checks that apply once hashes are recomputed: root = independent recomputation,
/// every key has a valid proof ending in that root.
fn check_hashes(blob: &MerkleBlob, model: &Model, c: &mut Counters) -> Result<(), Fail> {
    let rec = guard(|| recompute(blob))
        .map_err(|p| fail("panic:recompute".into(), p))?
        .map_err(|e| fail("root_mismatch:structure".into(), e))?;
    match rec {
        None => {
            if !model.kv.is_empty() {
                return Err(fail("content_mismatch:empty_blob".into(), "blob is empty, model is not".into()));
            }
            match root_state(blob) {
                RootState::Empty => {}
                other => {
                    return Err(fail("root_mismatch:empty".into(), format!("empty tree reports root {other:?}")))
                }
            }
        }
        Some((root, leaves)) => {
            let got: BTreeSet<(i64, i64, [u8; 32])> =
                leaves.iter().map(|(k, v, h)| (*k, *v, h.0.to_bytes())).collect();
            let want: BTreeSet<(i64, i64, [u8; 32])> = model
                .kv
                .iter()
                .map(|(k, (v, h))| (*k, *v, hash_of(*h).0.to_bytes()))
                .collect();
            if got != want || leaves.len() != want.len() {
                return Err(fail(
                    "content_mismatch:tree_leaves".into(),
                    format!("tree walk finds {} leaves, model has {}", leaves.len(), want.len()),
                ));
            }
            match root_state(blob) {
                RootState::Clean(h) if h == root => {}
                other => {
                    return Err(fail(
                        "root_mismatch:after_lazy".into(),
                        format!("root reported as {other:?}, recomputation gives {root:?}"),
                    ))
                }
            }
            c.inc("root_checks");
            // every key for trees of up to 64 leaves; for larger ones an evenly spaced sample
            // of about 32 keys plus the newest (deepest in chain mode). The root recomputation
            // above already covers every node.
            let n = model.kv.len();
            let stride = if n > 64 { n / 32 } else { 1 };
            let newest = model.newest.filter(|k| model.kv.contains_key(k));
            let sample = model.kv.iter().step_by(stride).map(|(k, v)| (*k, *v)).chain(newest.map(|k| (k, model.kv[&k])));
            for (k, (_, h)) in sample {
                let (k, h) = (&k, &h);
                let p = guard(|| blob.get_proof_of_inclusion(KeyId(*k)))
                    .map_err(|p| fail("panic:get_proof_of_inclusion".into(), p))?
                    .map_err(|e| fail(format!("proof_missing:{}", variant_name(&e)), format!("key {k}: {e}")))?;
                if !p.valid() {
                    return Err(fail("proof_invalid:valid()".into(), format!("key {k}")));
                }
                if p.root_hash() != root {
                    return Err(fail("proof_invalid:root".into(), format!("key {k}")));
                }
                verify_proof_independently(&p, &root, &hash_of(*h))
                    .map_err(|e| fail("proof_invalid:independent".into(), format!("key {k}: {e}")))?;
                c.inc("proof_checks");
            }
        }
    }
    Ok(())
}

/// The node-map rebuild path is defined for a non-empty tree whose node hashes are pairwise
/// distinct (its maps are keyed by hash) and that is at most 60 levels deep (it recurses, with
/// a documented limit of 64).
fn rebuild_precondition(blob: &MerkleBlob) -> bool {
    let nblocks = blob.read_blob().len() / BLOCK_SIZE;
    if nblocks == 0 {
        return false;
    }
    let mut seen: BTreeSet<[u8; 32]> = BTreeSet::new();
    let mut stack = vec![(TreeIndex(0), 0u32)];
    let mut visited = 0usize;
    while let Some((i, d)) = stack.pop() {
        visited += 1;
        if visited > nblocks || d > 60 {
            return false;
        }
        let Ok(node) = blob.get_node(i) else { return false };
        if !seen.insert(node.hash().0.to_bytes()) {
            return false;
        }
        if let Node::Internal(x) = node {
            stack.push((x.left, d + 1));
            stack.push((x.right, d + 1));
        }
    }
    true
}

type ProofSnapshot = BTreeMap<i64, Result<ProofOfInclusion, String>>;

fn snapshot_proofs(blob: &MerkleBlob, model: &Model) -> Result<ProofSnapshot, String> {
    let mut m = BTreeMap::new();
    // all keys up to 64 leaves, an evenly spaced sample of about 32 plus the newest beyond
    let n = model.kv.len();
    let stride = if n > 64 { n / 32 } else { 1 };
    let newest = model.newest.filter(|k| model.kv.contains_key(k));
    for k in model.kv.keys().step_by(stride).chain(newest.iter()) {
        let r = guard(|| blob.get_proof_of_inclusion(KeyId(*k)))?;
        m.insert(*k, r.map_err(|e| variant_name(&e)));
    }
    Ok(m)
}

pub struct C18;

const KINDS: [&str; 8] = [
    "insert", "upsert", "delete", "batch", "lazy", "proofs", "restart_mem", "restart_file",
];

impl C18 {
    fn exec(&self, case: &Case, ctx: &WorkerCtx, c: &mut Counters) -> (Option<Violation>, u64, Option<u64>) {
        let mut d = Digest::new();
        let mut shape = Digest::new();
        let mut model = Model::default();
        let mut blob = match guard(|| MerkleBlob::new(Vec::new())) {
            Ok(Ok(b)) => b,
            Ok(Err(e)) => {
                return (
                    Some(Violation { signature: "new_empty_failed".into(), step: 0, detail: e.to_string() }),
                    d.finish(),
                    None,
                )
            }
            Err(p) => {
                return (
                    Some(Violation { signature: "panic:new".into(), step: 0, detail: p }),
                    d.finish(),
                    None,
                )
            }
        };
        let mut max_leaves = 0usize;
        let mut had_fault = false;
        let mut last_failed = false;
        let mut last_batch = false;
        let mut dirty_possible = false;

        // epilogue: recompute hashes, check everything, reload once more
        let epilogue = [Op::Lazy, Op::RestartMem];
        let total = case.ops.len() + epilogue.len();
        for step in 0..total {
            let op = if step < case.ops.len() { &case.ops[step] } else { &epilogue[step - case.ops.len()] };
            let in_epilogue = step >= case.ops.len();
            c.inc("steps");
            let kind = op.kind();
            shape.str(kind);
            d.str(kind);
            let expect = model.predict(op);
            let before: Vec<u8> = blob.read_blob().clone();
            let leaves_before = model.kv.len();

            macro_rules! bail {
                ($f:expr) => {{
                    let f: Fail = $f;
                    return (
                        Some(Violation { signature: f.sig, step, detail: f.detail }),
                        d.finish(),
                        None,
                    );
                }};
            }

            // ---- perform the operation on the real store ----
            let outcome: Result<Result<(), String>, String> = match op {
                Op::Insert { key, value, hash, loc } => {
                    let location = match loc {
                        Loc::Auto => InsertLocation::Auto {},
                        Loc::AsRoot => InsertLocation::AsRoot {},
                        Loc::AtKey { rank, right } => {
                            let side = if *right { Side::Right } else { Side::Left };
                            if model.kv.is_empty() {
                                InsertLocation::Leaf { index: TreeIndex(0), side }
                            } else {
                                let k = *model.kv.keys().nth(*rank as usize % model.kv.len()).unwrap();
                                match guard(|| blob.get_key_index(KeyId(k))) {
                                    Ok(Ok(i)) => InsertLocation::Leaf { index: i, side },
                                    Ok(Err(e)) => bail!(fail(
                                        "content_mismatch:key_index".into(),
                                        format!("model key {k} has no index: {e}")
                                    )),
                                    Err(p) => bail!(fail("panic:get_key_index".into(), p)),
                                }
                            }
                        }
                        Loc::OutOfRange { beyond } => InsertLocation::Leaf {
                            index: TreeIndex((before.len() / BLOCK_SIZE) as u32 + beyond),
                            side: Side::Left,
                        },
                        Loc::AtNewest { right } => {
                            let side = if *right { Side::Right } else { Side::Left };
                            if model.kv.is_empty() {
                                InsertLocation::Leaf { index: TreeIndex(0), side }
                            } else {
                                let k = match model.newest {
                                    Some(k) if model.kv.contains_key(&k) => k,
                                    _ => *model.kv.keys().next().unwrap(),
                                };
                                match guard(|| blob.get_key_index(KeyId(k))) {
                                    Ok(Ok(i)) => InsertLocation::Leaf { index: i, side },
                                    Ok(Err(e)) => bail!(fail(
                                        "content_mismatch:key_index".into(),
                                        format!("model key {k} has no index: {e}")
                                    )),
                                    Err(p) => bail!(fail("panic:get_key_index".into(), p)),
                                }
                            }
                        }
                        Loc::AtFreed { nth } => {
                            // blocks not reachable from the root
                            let nblocks = before.len() / BLOCK_SIZE;
                            let mut reachable = vec![false; nblocks];
                            let mut stack = if nblocks > 0 { vec![TreeIndex(0)] } else { vec![] };
                            let mut guard_count = 0usize;
                            while let Some(i) = stack.pop() {
                                guard_count += 1;
                                if guard_count > nblocks + 1 || (i.0 as usize) >= nblocks || reachable[i.0 as usize] {
                                    continue;
                                }
                                reachable[i.0 as usize] = true;
                                if let Ok(Node::Internal(n)) = blob.get_node(i) {
                                    stack.push(n.left);
                                    stack.push(n.right);
                                }
                            }
                            let free: Vec<usize> = (0..nblocks).filter(|i| !reachable[*i]).collect();
                            if free.is_empty() {
                                InsertLocation::Leaf { index: TreeIndex(nblocks as u32 + 1), side: Side::Left }
                            } else {
                                c.inc("probe.insert_at_freed_block");
                                InsertLocation::Leaf { index: TreeIndex(free[*nth as usize % free.len()] as u32), side: if nth % 2 == 0 { Side::Left } else { Side::Right } }
                            }
                        }
                        Loc::AtInternal => {
                            let idx = if model.kv.len() >= 2 { 0 } else { (before.len() / BLOCK_SIZE) as u32 + 1 };
                            InsertLocation::Leaf { index: TreeIndex(idx), side: Side::Right }
                        }
                    };
                    guard(|| {
                        blob.insert(KeyId(*key), ValueId(*value), &hash_of(*hash), location)
                            .map(|_| ())
                            .map_err(|e| variant_name(&e))
                    })
                }
                Op::Upsert { key, value, hash } => guard(|| {
                    blob.upsert(KeyId(*key), ValueId(*value), &hash_of(*hash))
                        .map_err(|e| variant_name(&e))
                }),
                Op::Delete { key } => guard(|| blob.delete(KeyId(*key)).map_err(|e| variant_name(&e))),
                Op::Batch { items } => {
                    match leaves_before {
                        0 => c.inc("probe.batch_on_0_leaves"),
                        1 => c.inc("probe.batch_on_1_leaf"),
                        2 => c.inc("probe.batch_on_2_leaves"),
                        _ => c.inc("probe.batch_on_n_leaves"),
                    }
                    let v: Vec<((KeyId, ValueId), Hash)> = items
                        .iter()
                        .map(|(k, v, h)| ((KeyId(*k), ValueId(*v)), hash_of(*h)))
                        .collect();
                    guard(|| blob.batch_insert(v).map_err(|e| variant_name(&e)))
                }
                Op::BulkBatch { n, base, hash_base } => {
                    c.inc("probe.bulk_batch");
                    let v: Vec<((KeyId, ValueId), Hash)> = bulk_items(*n, *base, *hash_base)
                        .iter()
                        .map(|(k, v, h)| ((KeyId(*k), ValueId(*v)), hash_of(*h)))
                        .collect();
                    guard(|| blob.batch_insert(v).map_err(|e| variant_name(&e)))
                }
                Op::ChainBuild { n, base, hash_base, right } => {
                    c.inc("probe.chain_build");
                    if expect != Expect::Ok {
                        // only generated without conflicts; a conflicting one is a no-op that must fail
                        Ok(Err("ChainConflict".to_string()))
                    } else {
                        let side = if *right { Side::Right } else { Side::Left };
                        let mut prev: Option<i64> = match model.newest {
                            Some(k) if model.kv.contains_key(&k) => Some(k),
                            _ => model.kv.keys().next().copied(),
                        };
                        let items = bulk_items(*n, *base, *hash_base);
                        guard(|| {
                            for (k, v, h) in &items {
                                let loc = match prev {
                                    None => InsertLocation::Auto {},
                                    Some(pk) => InsertLocation::Leaf {
                                        index: blob.get_key_index(KeyId(pk)).map_err(|e| variant_name(&e))?,
                                        side,
                                    },
                                };
                                blob.insert(KeyId(*k), ValueId(*v), &hash_of(*h), loc).map_err(|e| variant_name(&e))?;
                                prev = Some(*k);
                            }
                            Ok(())
                        })
                    }
                }
                Op::Lazy => guard(|| blob.calculate_lazy_hashes().map_err(|e| variant_name(&e))),
                Op::Proofs => {
                    // exercise the call; before recomputation a Dirty error is legal
                    match snapshot_proofs(&blob, &model) {
                        Ok(_) => {}
                        Err(p) => bail!(fail("panic:get_proof_of_inclusion".into(), p)),
                    }
                    // a clone is an equivalent blob, and changing it leaves the original alone
                    let victim = model.kv.keys().next().copied();
                    let r = guard(|| {
                        let mut cl = blob.clone();
                        if cl.read_blob() != blob.read_blob() {
                            return Err("clone has different bytes".to_string());
                        }
                        let kv = cl.get_keys_values().map_err(|e| format!("clone content unreadable: {e}"))?;
                        if kv != blob.get_keys_values().map_err(|e| e.to_string())? {
                            return Err("clone has different content".to_string());
                        }
                        match victim {
                            Some(k) => cl.delete(KeyId(k)).map_err(|e| format!("delete on clone: {e}"))?,
                            None => cl
                                .insert(KeyId(1), ValueId(1), &hash_of(u64::MAX - 5), InsertLocation::Auto {})
                                .map(|_| ())
                                .map_err(|e| format!("insert on clone: {e}"))?,
                        }
                        cl.check_integrity().map_err(|e| format!("clone integrity after change: {e}"))?;
                        Ok(())
                    });
                    match r {
                        Err(p) => bail!(fail("panic:clone".into(), p)),
                        Ok(Err(e)) => bail!(fail("clone_not_equivalent".into(), e)),
                        Ok(Ok(())) => {}
                    }
                    if blob.read_blob() != &before {
                        bail!(fail("clone_not_independent".into(), "changing a clone changed the original's bytes".into()));
                    }
                    c.inc("clone_checks");
                    Ok(Ok(()))
                }
                Op::RestartRebuild => {
                    let root_before = root_state(&blob);
                    let shape_ok = guard(|| rebuild_precondition(&blob)).unwrap_or(false);
                    if let (RootState::Clean(root), true) = (root_before.clone(), shape_ok) {
                        if !in_epilogue {
                            had_fault = true;
                            c.inc("fault.restart_rebuild");
                        }
                        let proofs_before = match snapshot_proofs(&blob, &model) {
                            Ok(p) => p,
                            Err(p) => bail!(fail("panic:get_proof_of_inclusion".into(), p)),
                        };
                        let path = ctx.scratch.join("blob.zst");
                        let rebuilt = guard(|| {
                            blob.to_path(&path).map_err(|e| format!("to_path: {e}"))?;
                            let wanted: std::collections::HashSet<Hash> = [root].into_iter().collect();
                            let (nodes, index_of) = chia_datalayer::collect_and_return_from_merkle_blob(&path, &wanted, |_| false)
                                .map_err(|e| format!("collect_and_return_from_merkle_blob: {e}"))?;
                            let mut used = std::collections::HashSet::new();
                            let nb = MerkleBlob::build_blob_from_node_list(&nodes, root, &std::collections::HashSet::new(), &mut used)
                                .map_err(|e| format!("build_blob_from_node_list: {e}"))?;
                            Ok::<_, String>((nb, index_of, used.len()))
                        });
                        let (nb, index_of, used) = match rebuilt {
                            Err(p) => bail!(fail("panic:reload:restart_rebuild".into(), p)),
                            Ok(Err(e)) => bail!(fail("rebuild_failed".into(), format!("the node-map path cannot rebuild the tree from the store's own file: {e}"))),
                            Ok(Ok(x)) => x,
                        };
                        let n = model.kv.len();
                        if used != 2 * n - 1 || index_of.len() != 2 * n - 1 {
                            bail!(fail("rebuild_diff:node_count".into(), format!("{} nodes used, {} indexed, the tree has {}", used, index_of.len(), 2 * n - 1)));
                        }
                        // the hash -> index map of the file names the store's own blocks
                        for (k, (_, h)) in model.kv.iter().step_by((n / 16).max(1)) {
                            let want = blob.get_key_index(KeyId(*k)).ok();
                            if index_of.get(&hash_of(*h)).copied() != want || want.is_none() {
                                bail!(fail("rebuild_diff:index_of".into(), format!("leaf of key {k} is at {want:?} in the file, reported at {:?}", index_of.get(&hash_of(*h)))));
                            }
                        }
                        let root_after = root_state(&nb);
                        if root_after != root_before {
                            bail!(fail("rebuild_diff:root".into(), format!("root {root_before:?} became {root_after:?}")));
                        }
                        let proofs_after = match snapshot_proofs(&nb, &model) {
                            Ok(p) => p,
                            Err(p) => bail!(fail("panic:get_proof_of_inclusion".into(), p)),
                        };
                        if proofs_after != proofs_before {
                            bail!(fail("rebuild_diff:proofs".into(), "proofs differ after the rebuild".into()));
                        }
                        blob = nb; // the rebuilt blob (another block layout) carries on
                    } else {
                        c.inc("probe.restart_rebuild_not_defined_here");
                    }
                    Ok(Ok(()))
                }
                Op::RestartMem | Op::RestartFile => {
                    // crash point: only the bytes survive
                    if !in_epilogue {
                        had_fault = true;
                        if matches!(op, Op::RestartMem) { c.inc("fault.restart_mem") } else { c.inc("fault.restart_file") }
                        if last_failed {
                            c.inc("probe.restart_right_after_failed_op");
                        }
                        if last_batch {
                            c.inc("probe.restart_right_after_batch");
                        }
                    }
                    let root_before = root_state(&blob);
                    if dirty_possible && matches!(root_before, RootState::Err(_)) {
                        c.inc("probe.restart_with_dirty_nodes");
                    }
                    let proofs_before = match snapshot_proofs(&blob, &model) {
                        Ok(p) => p,
                        Err(p) => bail!(fail("panic:get_proof_of_inclusion".into(), p)),
                    };
                    let bytes = blob.read_blob().clone();
                    let reloaded: Result<Result<MerkleBlob, String>, String> = if matches!(op, Op::RestartMem) {
                        guard(|| MerkleBlob::new(bytes.clone()).map_err(|e| e.to_string()))
                    } else {
                        let path = ctx.scratch.join("blob.zst");
                        guard(|| {
                            blob.to_path(&path).map_err(|e| format!("to_path: {e}"))?;
                            MerkleBlob::from_path(&path).map_err(|e| format!("from_path: {e}"))
                        })
                    };
                    let nb = match reloaded {
                        Err(p) => bail!(fail(format!("panic:reload:{kind}"), p)),
                        Ok(Err(e)) => bail!(fail(
                            "reload_failed".into(),
                            format!("{kind}: the blob's own bytes do not load: {e}")
                        )),
                        Ok(Ok(b)) => b,
                    };
                    if nb.read_blob() != &bytes {
                        bail!(fail("reload_diff:bytes".into(), format!("{kind}: reloaded bytes differ")));
                    }
                    let root_after = root_state(&nb);
                    if root_after != root_before {
                        bail!(fail(
                            "reload_diff:root".into(),
                            format!("{kind}: root {root_before:?} became {root_after:?}")
                        ));
                    }
                    let proofs_after = match snapshot_proofs(&nb, &model) {
                        Ok(p) => p,
                        Err(p) => bail!(fail("panic:get_proof_of_inclusion".into(), p)),
                    };
                    if proofs_after != proofs_before {
                        bail!(fail("reload_diff:proofs".into(), format!("{kind}: proofs differ after reload")));
                    }
                    blob = nb; // the old object (and its volatile index) is gone
                    Ok(Ok(()))
                }
            };

            // ---- compare with the model ----
            let ok = match outcome {
                Err(p) => bail!(fail(format!("panic:{kind}"), p)),
                Ok(Ok(())) => true,
                Ok(Err(ref e)) => {
                    d.str(e);
                    false
                }
            };
            shape.u64(u64::from(ok));
            d.u64(u64::from(ok));
            match (&expect, ok) {
                (Expect::Ok, true) => model.apply(op),
                (Expect::Err(reason), false) => {
                    had_fault = true;
                    match *reason {
                        "dup_key" => c.inc("fault.failed_op.dup_key"),
                        "dup_hash" => c.inc("fault.failed_op.dup_hash"),
                        "foreign_hash" => c.inc("fault.failed_op.upsert_foreign_hash"),
                        "unknown_key" => c.inc("fault.failed_op.unknown_key"),
                        "asroot_nonempty" => c.inc("fault.failed_op.asroot_nonempty"),
                        "bad_location" => c.inc("fault.failed_op.bad_location"),
                        _ => c.inc("fault.failed_op.batch_conflict"),
                    }
                    // (2) a failed operation leaves the blob unchanged
                    if blob.read_blob() != &before {
                        bail!(fail(
                            format!("failed_op_changed_blob:{kind}:{reason}"),
                            format!("{kind} returned an error but the bytes changed")
                        ));
                    }
                }
                (Expect::Err(reason), true) => {
                    bail!(fail(
                        format!("accepted_invalid:{kind}:{reason}"),
                        format!("{kind} succeeded although the map must reject it ({reason})")
                    ));
                }
                (Expect::Ok, false) => {
                    let e = match &outcome { Ok(Err(e)) => e.clone(), _ => String::new() };
                    bail!(fail(
                        format!("rejected_valid:{kind}:{e}"),
                        format!("{kind} failed with {e} although a plain map accepts it")
                    ));
                }
            }
            last_failed = !ok;
            last_batch = matches!(op, Op::Batch { .. } | Op::BulkBatch { .. });
            match op {
                Op::Insert { .. } | Op::Upsert { .. } | Op::Delete { .. } | Op::Batch { .. } | Op::BulkBatch { .. } | Op::ChainBuild { .. } if ok => {
                    dirty_possible = true;
                }
                Op::Lazy => dirty_possible = false,
                _ => {}
            }
            if matches!(op, Op::Delete { .. }) && ok {
                match model.kv.len() {
                    0 => c.inc("probe.delete_to_0_leaves"),
                    1 => c.inc("probe.delete_to_1_leaf"),
                    2 => c.inc("probe.delete_to_2_leaves"),
                    _ => {}
                }
            }
            max_leaves = max_leaves.max(model.kv.len());

            if let Err(f) = check_state(&blob, &model, kind) {
                bail!(f);
            }
            if let Err(f) = check_views(&blob, &model, kind) {
                bail!(f);
            }
            c.inc("view_checks");
            if matches!(op, Op::Lazy) {
                if let Err(f) = check_hashes(&blob, &model, c) {
                    bail!(f);
                }
            }
            d.bytes(blob.read_blob());
        }
        c.max("max.leaves", max_leaves as u64);
        c.max("max.chain_built", case.ops.iter().map(|o| if let Op::ChainBuild { n, .. } = o { u64::from(*n) } else { 0 }).max().unwrap_or(0));
        let nontrivial = if had_fault && max_leaves >= 3 { Some(shape.finish()) } else { None };
        (None, d.finish(), nontrivial)
    }
}

struct Gen<'a> {
    rng: &'a mut Rng,
    keyspace: u64,
    model: Model,
    fresh_hash: u64,
    /// (key, value, hash id) of the most recently deleted leaf, and of the state a key had
    /// before its most recent upsert: operations that restore an earlier state byte for byte
    last_deleted: Option<(i64, i64, u64)>,
    before_upsert: Option<(i64, i64, u64)>,
}

impl Gen<'_> {
    fn rand_key(&mut self) -> i64 {
        match self.rng.below(40) {
            0 => i64::MIN,
            1 => i64::MAX,
            2 => -1,
            _ => {
                let k = self.rng.below(self.keyspace) as i64;
                if self.keyspace > 1000 && self.rng.chance(1, 4) { -k } else { k }
            }
        }
    }
    fn rand_value(&mut self) -> i64 {
        match self.rng.below(30) {
            0 => i64::MIN,
            1 => i64::MAX,
            2 => 0,
            3 => self.rng.next_u64() as i64,
            _ => self.rng.below(1000) as i64 - 500,
        }
    }
    fn existing_key(&mut self) -> Option<i64> {
        if self.model.kv.is_empty() {
            return None;
        }
        let n = self.rng.usize_below(self.model.kv.len());
        self.model.kv.keys().nth(n).copied()
    }
    fn fresh_key(&mut self) -> Option<i64> {
        for _ in 0..16 {
            let k = self.rand_key();
            if !self.model.kv.contains_key(&k) {
                return Some(k);
            }
        }
        None
    }
    fn new_hash(&mut self) -> u64 {
        self.fresh_hash += 1;
        (1 << 20) + self.fresh_hash
    }
    fn any_hash(&mut self) -> u64 {
        // one new leaf hash in 25 equals the internal-node hash of two live leaves' hashes (in
        // either order): if those two are siblings, a leaf and an internal node carry one hash
        if self.model.hashes.len() >= 2 && self.rng.chance(1, 25) {
            let n = self.model.hashes.len();
            let newest_hash = self.model.newest.and_then(|k| self.model.kv.get(&k)).map(|(_, h)| *h);
            let a = match newest_hash {
                Some(h) if self.rng.chance(1, 2) => h,
                _ => *self.model.hashes.keys().nth(self.rng.usize_below(n)).unwrap(),
            };
            let b = *self.model.hashes.keys().nth(self.rng.usize_below(n)).unwrap();
            if a != b {
                if let Some(id) = derived_hash_id(a, b) {
                    return id;
                }
            }
        }
        if self.rng.chance(7, 10) {
            self.new_hash()
        } else {
            // small id space: collisions with live and with deleted leaves' hashes
            self.rng.below((2 * self.keyspace).min(24))
        }
    }
    fn existing_hash(&mut self) -> Option<u64> {
        if self.model.hashes.is_empty() {
            return None;
        }
        let n = self.rng.usize_below(self.model.hashes.len());
        self.model.hashes.keys().nth(n).copied()
    }
    fn loc(&mut self, valid_only: bool) -> Loc {
        let r = self.rng.below(20);
        if valid_only {
            if self.model.kv.is_empty() {
                return if r < 10 { Loc::Auto } else { Loc::AsRoot };
            }
            return if r < 10 {
                Loc::Auto
            } else {
                Loc::AtKey { rank: self.rng.below(64) as u32, right: self.rng.chance(1, 2) }
            };
        }
        match r {
            0..=9 => Loc::Auto,
            10..=15 => Loc::AtKey { rank: self.rng.below(64) as u32, right: self.rng.chance(1, 2) },
            16 | 17 => Loc::AsRoot,
            18 => Loc::OutOfRange { beyond: self.rng.below(3) as u32 },
            _ if self.rng.chance(1, 2) => Loc::AtFreed { nth: self.rng.below(8) as u32 },
            _ => Loc::AtInternal,
        }
    }
}

impl Engine for C18 {
    type Case = Case;
    fn id(&self) -> &'static str {
        "C18"
    }
    fn default_runs(&self, tier: Tier) -> u64 {
        match tier {
            Tier::Quick => 500_000,
            Tier::Thorough => 3_000_000,
        }
    }
    fn info(&self) -> EngineInfo {
        EngineInfo {
            engine: "histsim",
            rule: "seeded operation histories (1-40 ops: insert at any location, upsert, delete, batch_insert, calculate_lazy_hashes, proofs, restart from bytes in memory, restart through the zstd file) on a real MerkleBlob stepped against a plain-map reference model; a run is non-trivial if it contains at least one restart or failed operation and reached >= 3 leaves; distinct = distinct (operation-kind, outcome) sequences among those",
            components_real: vec![
                "chia_datalayer::MerkleBlob (insert, upsert, delete, batch_insert, calculate_lazy_hashes, check_integrity, get_keys_values, get_proof_of_inclusion, get_node, get_node_by_hash, get_hash_at_index, new, to_path, from_path)",
                "BlockStatusCache rebuild on reload",
                "ProofOfInclusion::valid/root_hash",
                "zstd file write/read in a private scratch directory",
            ],
            components_stub: vec!["reference model: BTreeMap key -> (value, leaf hash)", "independent SHA-256 (sha2 crate) root and proof recomputation"],
            assumptions: vec![
                "restart = the object is dropped and rebuilt from read_blob() bytes (memory) or from to_path/from_path; files are never damaged (the property promises nothing about damaged bytes)",
                "InsertLocation::Leaf is pointed at live leaves, the root internal node, out-of-range blocks and freed blocks (the last three must be rejected)",
                "hashes are examined only after calculate_lazy_hashes",
                "sampling: a clean batch is evidence, not proof",
            ],
            fault_kinds: vec![
                "restart_mem", "restart_file", "restart_rebuild", "failed_op.dup_key", "failed_op.dup_hash", "failed_op.upsert_foreign_hash",
                "failed_op.unknown_key", "failed_op.asroot_nonempty", "failed_op.bad_location", "failed_op.batch_conflict",
            ],
        }
    }

    fn generate(&self, rng: &mut Rng, tier: Tier) -> Case {
        let deep = tier == Tier::Thorough && rng.chance(1, 5);
        let faults = !rng.chance(1, 4);
        let keyspace = if deep { *rng.pick(&[12u64, 64, 64, 1_000_000]) } else { *rng.pick(&[2u64, 4, 12, 12, 1_000_000]) };
        let len = match rng.below(10) {
            0..=2 => rng.range(1, 4),
            3..=7 => rng.range(3, 16),
            _ => rng.range(10, 40),
        } as usize;
        // thorough tier: one run in five is a long history on a larger tree
        let len = if deep { rng.range(40, 160) as usize } else { len };
        // chain mode: most inserts go next to the newest key, which builds a degenerate
        // tree whose depth equals its size (seed-derived insert positions and proofs
        // then walk hundreds of levels)
        let chain = rng.chance(1, 30);
        let len = if chain && deep { rng.range(260, 340) as usize } else if chain { len.max(20) } else { len };
        let chain_right = rng.chance(1, 2);
        // a bulk batch up front: hundreds of leaves (block indexes above 255), and in the
        // thorough tier very rarely tens of thousands (indexes above 65535)
        let bulk: Option<u32> = if deep && rng.chance(1, 40_000) {
            Some(*rng.pick(&[33_000u32, 66_000]))
        } else if rng.chance(1, 60) {
            Some(*rng.pick(&[150u32, 300, 600]))
        } else {
            None
        };
        let len = if bulk.is_some_and(|n| n > 1000) { len.min(10) } else { len };
        // swarm: per-run operation weights
        let mut w = [0u64; 8];
        for x in w.iter_mut() {
            *x = *rng.pick(&[0u64, 1, 1, 2, 4]);
        }
        if w[0] + w[1] + w[3] == 0 {
            w[0] = 2;
        }
        if !faults {
            w[6] = 0;
            w[7] = 0;
        } else if w[6] + w[7] == 0 && rng.chance(2, 3) {
            w[6] = 1;
        }
        if chain {
            w[0] = 6;
            w[1] = w[1].max(2);
            w[2] = w[2].clamp(1, 2);
            w[4] = w[4].max(2);
        }
        let conflict_pct = if faults { *rng.pick(&[0u64, 10, 25, 50]) } else { 0 };
        let total: u64 = w.iter().sum();
        let mut g = Gen { rng, keyspace, model: Model::default(), fresh_hash: 0, last_deleted: None, before_upsert: None };
        let mut ops: Vec<Op> = vec![];
        if let Some(n) = bulk {
            // mostly far away from the ordinary key space; sometimes overlapping it
            let base: i64 = if faults && g.rng.chance(1, 6) { 0 } else { 10_000_000 };
            let op = Op::BulkBatch { n, base, hash_base: 1 << 32 };
            if g.model.predict(&op) == Expect::Ok {
                g.model.apply(&op);
            }
            ops.push(op);
        }
        if chain {
            // rarely a chain thousands of levels deep (any bound on lineage or walk depth that a
            // developer might consider safe: 1 024, 4 096, 8 192)
            let n = if g.rng.chance(1, 50) {
                *g.rng.pick(&[1_030u32, 4_100, 4_200, 8_200])
            } else if g.rng.chance(1, 10) {
                *g.rng.pick(&[250u32, 257, 258, 300])
            } else {
                *g.rng.pick(&[20u32, 60, 130])
            };
            let op = Op::ChainBuild { n, base: 20_000_000, hash_base: 1 << 33, right: chain_right };
            if g.model.predict(&op) == Expect::Ok {
                g.model.apply(&op);
                ops.push(op);
                // hashes are usually recomputed before the deep end is touched again
                if g.rng.chance(3, 4) {
                    ops.push(Op::Lazy);
                }
            }
        }
        let mut attempts = 0u32;
        while ops.len() < len {
            attempts += 1;
            if attempts > 400 + 4 * len as u32 {
                break;
            }
            let mut r = g.rng.below(total);
            let mut k = 0;
            while r >= w[k] {
                r -= w[k];
                k += 1;
            }
            let conflict = g.rng.below(100) < conflict_pct;
            let op = match KINDS[k] {
                // put the most recently deleted leaf back exactly as it was (same key, value and
                // hash; often right away, so that it lands on the blocks the delete freed)
                "insert" if g.last_deleted.is_some() && g.rng.chance(1, 4) => {
                    let (key, value, hash) = g.last_deleted.unwrap();
                    let loc = if g.rng.chance(2, 3) { Loc::Auto } else { g.loc(true) };
                    Op::Insert { key, value, hash, loc }
                }
                // put a key back to the value and hash it had before its last upsert
                "upsert" if g.before_upsert.is_some() && g.rng.chance(1, 6) => {
                    let (key, value, hash) = g.before_upsert.unwrap();
                    Op::Upsert { key, value, hash }
                }
                "insert" => {
                    let key = if conflict && g.rng.chance(1, 2) { g.existing_key() } else { None }
                        .or_else(|| if faults { Some(g.rand_key()) } else { g.fresh_key() });
                    let Some(key) = key else { continue };
                    let hash = if conflict { g.existing_hash().unwrap_or_else(|| g.any_hash()) } else if faults { g.any_hash() } else { g.new_hash() };
                    let valid_only = !faults || !conflict && g.rng.chance(3, 4);
                    let loc = if chain && !g.model.kv.is_empty() && g.rng.chance(9, 10) {
                        Loc::AtNewest { right: chain_right }
                    } else {
                        g.loc(valid_only)
                    };
                    Op::Insert { key, value: g.rand_value(), hash, loc }
                }
                "upsert" => {
                    let newest = g.model.newest.filter(|k| g.model.kv.contains_key(k));
                    let key = if chain && newest.is_some() && g.rng.chance(1, 2) { newest } else if g.rng.chance(3, 5) { g.existing_key() } else { None }
                        .unwrap_or_else(|| g.rand_key());
                    let hash = if conflict { g.existing_hash().unwrap_or_else(|| g.any_hash()) } else if faults { g.any_hash() } else { g.new_hash() };
                    Op::Upsert { key, value: g.rand_value(), hash }
                }
                "delete" => {
                    let newest = g.model.newest.filter(|k| g.model.kv.contains_key(k));
                    let key = if chain && newest.is_some() && g.rng.chance(1, 2) { newest } else if faults && (conflict || g.rng.chance(1, 5)) { Some(g.rand_key()) } else { g.existing_key() };
                    let Some(key) = key else { continue };
                    Op::Delete { key }
                }
                "batch" => {
                    let n = match g.rng.below(8) {
                        0 => 0,
                        1 => 1,
                        2 => 2,
                        3 => 3,
                        _ if deep => g.rng.range(2, 20),
                        _ => g.rng.range(2, 6),
                    };
                    let mut items: Vec<(i64, i64, u64)> = vec![];
                    for _ in 0..n {
                        let dup_inside = conflict && !items.is_empty() && g.rng.chance(1, 3);
                        let key = if dup_inside && g.rng.chance(1, 2) {
                            items[g.rng.usize_below(items.len())].0
                        } else if conflict && g.rng.chance(1, 3) {
                            g.existing_key().unwrap_or_else(|| g.rand_key())
                        } else if faults {
                            g.rand_key()
                        } else {
                            let mut k = g.fresh_key();
                            if let Some(kk) = k {
                                if items.iter().any(|i| i.0 == kk) {
                                    k = None;
                                }
                            }
                            match k {
                                Some(k) => k,
                                None => continue,
                            }
                        };
                        let hash = if dup_inside {
                            items[g.rng.usize_below(items.len())].2
                        } else if conflict && g.rng.chance(1, 3) {
                            g.existing_hash().unwrap_or_else(|| g.any_hash())
                        } else if faults {
                            g.any_hash()
                        } else {
                            g.new_hash()
                        };
                        items.push((key, g.rng.below(1000) as i64, hash));
                    }
                    Op::Batch { items }
                }
                // rarely a large batch in the middle of a history (onto a tree that already has a shape)
                "lazy" if g.rng.chance(1, 400) => {
                    let n = *g.rng.pick(&[40u32, 130, 300]);
                    let base = 30_000_000 + i64::from(g.rng.below(4) as u32) * 1000;
                    Op::BulkBatch { n, base, hash_base: (1 << 34) + g.rng.below(4) * 1000 }
                }
                "lazy" => Op::Lazy,
                "proofs" => Op::Proofs,
                "restart_mem" => Op::RestartMem,
                _ if g.rng.chance(1, 3) => {
                    // a rebuild needs clean hashes
                    if g.rng.chance(3, 4) {
                        ops.push(Op::Lazy);
                    }
                    Op::RestartRebuild
                }
                _ => Op::RestartFile,
            };
            let predicted_ok = g.model.predict(&op) == Expect::Ok;
            if !faults && !predicted_ok {
                continue;
            }
            if predicted_ok {
                match &op {
                    Op::Delete { key } => g.last_deleted = g.model.kv.get(key).map(|(v, h)| (*key, *v, *h)),
                    Op::Upsert { key, .. } => g.before_upsert = g.model.kv.get(key).map(|(v, h)| (*key, *v, *h)),
                    _ => {}
                }
                g.model.apply(&op);
            }
            let failed = !predicted_ok;
            let was_batch = matches!(op, Op::Batch { .. } | Op::BulkBatch { .. });
            ops.push(op);
            // bias: a restart right after a failed operation / a batch, where in-flight state exists
            if faults && (failed || was_batch) && ops.len() < len && g.rng.chance(1, 3) {
                ops.push(if g.rng.chance(3, 4) { Op::RestartMem } else { Op::RestartFile });
            }
        }
        Case { faults, ops }
    }

    fn execute(&self, case: &Case, ctx: &WorkerCtx, counters: &mut Counters) -> RunOutput<Case> {
        if case.faults { counters.inc("runs.fault_injecting") } else { counters.inc("runs.fault_free") }
        let (violation, digest, nontrivial) = self.exec(case, ctx, counters);
        RunOutput { violation, digest, nontrivial, resolved: None }
    }

    fn shrink(&self, case: &Case) -> Vec<Case> {
        let mut out = vec![];
        for ops in removal_candidates(&case.ops) {
            out.push(Case { faults: case.faults, ops });
        }
        // simplify single operations
        for (i, op) in case.ops.iter().enumerate() {
            let mut alts: Vec<Op> = vec![];
            match op {
                Op::Batch { items } if items.len() > 1 => {
                    for j in 0..items.len() {
                        let mut it = items.clone();
                        it.remove(j);
                        alts.push(Op::Batch { items: it });
                    }
                }
                Op::Insert { key, value, hash, loc } if *loc != Loc::Auto => {
                    alts.push(Op::Insert { key: *key, value: *value, hash: *hash, loc: Loc::Auto });
                }
                Op::RestartFile | Op::RestartRebuild => alts.push(Op::RestartMem),
                Op::ChainBuild { n, base, hash_base, right } if *n > 1 => {
                    alts.push(Op::ChainBuild { n: n / 2, base: *base, hash_base: *hash_base, right: *right });
                    alts.push(Op::ChainBuild { n: n - 1, base: *base, hash_base: *hash_base, right: *right });
                }
                Op::BulkBatch { n, base, hash_base } if *n > 1 => {
                    alts.push(Op::BulkBatch { n: n / 2, base: *base, hash_base: *hash_base });
                    alts.push(Op::BulkBatch { n: n - 1, base: *base, hash_base: *hash_base });
                }
                _ => {}
            }
            for a in alts {
                let mut ops = case.ops.clone();
                ops[i] = a;
                out.push(Case { faults: case.faults, ops });
            }
        }
        out
    }

    fn extra_coverage(&self, c: &Counters) -> Value {
        json!({
            "root_recomputations": c.map.get("root_checks").copied().unwrap_or(0),
            "proofs_reverified": c.map.get("proof_checks").copied().unwrap_or(0),
            "distinct_interleavings": "n/a (sequential histories; the searched space is histories x restart points x failing operations)",
        })
    }
}

#[allow(dead_code)]
fn _unused(_: &Op) -> bool {
    Op::Lazy.is_restart()
}
