//! C15 — all signature verification paths agree, with or without the pairing
//! cache, under every interleaving of concurrent users of one `BlsCache`
//! (schedsim).

use crate::core::*;
use crate::rng::{Digest, Rng};
use crate::sched::{self, Outcome, Strategy};
use chia_bls::{
    aggregate, aggregate_pairing, aggregate_verify, aggregate_verify_gt, hash_to_g2, sign, verify,
    BlsCache, GTElement, PublicKey, SecretKey, Signature,
};
use serde::{Deserialize, Serialize};
use serde_json::{json, Value};
use std::collections::BTreeMap;
use std::num::NonZeroUsize;
use std::sync::{Arc, OnceLock};

pub const NKEYS: usize = 6;
/// key index of the point at infinity
pub const INF: u8 = NKEYS as u8;
/// a key outside the subgroup ([S]G + T) and a valid key ([A]G) whose 32-bit fingerprints
/// (`PublicKey::get_fingerprint`, the first four bytes of sha256 of the compressed key) are equal:
/// whatever identifies a key by less than its full encoding confuses the two. The scalars were
/// found by `vsim debug-collide` for this pool's first G1 torsion point and are re-checked when
/// the pool is built; if the check fails the two indexes fall back to ordinary keys.
pub const K_COLLIDE_INVALID: u8 = INF + 5;
pub const K_COLLIDE_VALID: u8 = INF + 6;
const COLLIDE_A: u64 = 19_141;
const COLLIDE_S: u64 = 127_295;

fn scalar32(v: u64) -> [u8; 32] {
    let mut b = [0u8; 32];
    b[24..].copy_from_slice(&v.to_be_bytes());
    b
}

/// is this key index one that no signature may be valid for?
pub fn invalid_key(k: u8) -> bool {
    k >= INF && k != K_COLLIDE_VALID
}
pub const NMSGS: usize = 8;

pub struct Pool {
    pub sks: Vec<SecretKey>,
    pub pks: Vec<PublicKey>, // NKEYS real keys + infinity
    pub msgs: Vec<Vec<u8>>,
    /// canonical content id of each message (two messages are equal on purpose)
    pub msg_class: Vec<u8>,
    pub sigs: Vec<Vec<Signature>>,
    pub gts: Vec<Vec<GTElement>>,
    pub off_subgroup: Vec<Signature>,
    pub torsion: Vec<Signature>,
    /// public keys outside the subgroup: pool key k plus a G1 torsion point, as (key, k).
    /// The pairing of such a key with any G2 point equals that of the honest key, so only
    /// the subgroup check of the decoder rejects it.
    pub shifted_pks: Vec<(PublicKey, usize)>,
    /// the G1 torsion points behind shifted_pks (one per partner pair)
    pub g1_torsion: Vec<PublicKey>,
    /// (valid key [A]G, its secret key, key [S]G + T outside the subgroup, [S]'s secret key) with
    /// equal fingerprints, when the hard-coded scalars check out
    pub collide: Option<(PublicKey, SecretKey, PublicKey, SecretKey)>,
}

pub fn pool() -> &'static Pool {
    static POOL: OnceLock<Pool> = OnceLock::new();
    POOL.get_or_init(|| {
        let mut sks = vec![];
        let mut pks = vec![];
        for i in 0..NKEYS {
            let sk = SecretKey::from_seed(&[i as u8 + 1; 32]);
            pks.push(sk.public_key());
            sks.push(sk);
        }
        pks.push(PublicKey::default());
        let msgs: Vec<Vec<u8>> = vec![
            vec![],
            b"a".to_vec(),
            b"a".to_vec(),
            vec![0x6a; 32],
            vec![7u8; 100],
            (0..300u32).map(|i| (i % 251) as u8).collect(),
            (0..1100u32).map(|i| (i % 241) as u8).collect(),
            vec![0u8; 48],
        ];
        let msg_class = vec![0, 1, 1, 3, 4, 5, 6, 7];
        let mut sigs = vec![];
        let mut gts = vec![];
        for k in 0..NKEYS {
            let mut row = vec![];
            let mut grow = vec![];
            for m in &msgs {
                row.push(sign(&sks[k], m));
                let mut aug = pks[k].to_bytes().to_vec();
                aug.extend_from_slice(m);
                grow.push(hash_to_g2(&aug).pair(&pks[k]));
            }
            sigs.push(row);
            gts.push(grow);
        }
        // points on the curve but outside the prime-order subgroup
        let mut off = vec![];
        let mut rng = Rng::new(0x0ff5_0b67);
        let mut tries = 0;
        while off.len() < 3 && tries < 4096 {
            tries += 1;
            let mut b = [0u8; 96];
            b.copy_from_slice(&rng.bytes(96));
            b[0] = (b[0] & 0x1f) | 0x80; // compressed, not infinity
            if let Ok(s) = Signature::from_bytes_unchecked(&b) {
                if !s.is_valid() {
                    off.push(s);
                }
            }
        }
        // torsion points: (group order) x (curve point outside the subgroup). Adding one
        // to a valid signature leaves every pairing equation intact, so only the
        // subgroup check rejects the sum.
        let r_minus_1: [u8; 32] = [
            0x73, 0xed, 0xa7, 0x53, 0x29, 0x9d, 0x7d, 0x48, 0x33, 0x39, 0xd8, 0x08, 0x09, 0xa1, 0xd8, 0x05,
            0x53, 0xbd, 0xa4, 0x02, 0xff, 0xfe, 0x5b, 0xfe, 0xff, 0xff, 0xff, 0xff, 0x00, 0x00, 0x00, 0x00,
        ];
        let mut torsion = vec![];
        for o in &off {
            let mut t = o.clone();
            t.scalar_multiply(&r_minus_1);
            t.aggregate(o);
            if t != Signature::default() && !t.is_valid() {
                torsion.push(t);
            }
        }
        // G1 points on the curve but outside the subgroup, turned into torsion points T;
        // shifted keys come in partner pairs (P_a + T, P_b - T): each is outside the subgroup,
        // their sum is inside
        let mut shifted_pks = vec![];
        let mut g1_torsion = vec![];
        let mut tries = 0;
        while shifted_pks.len() < 4 && tries < 4096 {
            tries += 1;
            let mut b = [0u8; 48];
            b.copy_from_slice(&rng.bytes(48));
            b[0] = (b[0] & 0x1f) | 0x80;
            if let Ok(pt) = PublicKey::from_bytes_unchecked(&b) {
                if !pt.is_valid() {
                    let mut t = pt.clone();
                    t.scalar_multiply(&r_minus_1);
                    t += &pt;
                    let mut minus_t = t.clone();
                    minus_t.negate();
                    let ka = shifted_pks.len() % NKEYS;
                    let kb = (shifted_pks.len() + 1) % NKEYS;
                    let plus = &pks[ka] + &t;
                    let minus = &pks[kb] + &minus_t;
                    if !t.is_inf() && !plus.is_valid() && !minus.is_valid() {
                        shifted_pks.push((plus, ka));
                        shifted_pks.push((minus, kb));
                        g1_torsion.push(t);
                    }
                }
            }
        }
        let collide = (|| {
            if COLLIDE_A == 0 || g1_torsion.is_empty() {
                return None;
            }
            let sk_a = SecretKey::from_bytes(&scalar32(COLLIDE_A)).ok()?;
            let sk_s = SecretKey::from_bytes(&scalar32(COLLIDE_S)).ok()?;
            let a = sk_a.public_key();
            let x = &sk_s.public_key() + &g1_torsion[0];
            if a.is_valid() && !x.is_valid() && !x.is_inf() && a.get_fingerprint() == x.get_fingerprint() {
                Some((a, sk_a, x, sk_s))
            } else {
                None
            }
        })();
        Pool { sks, pks, msgs, msg_class, sigs, gts, off_subgroup: off, torsion, shifted_pks, g1_torsion, collide }
    })
}

/// (key index, message index); key index 0..NKEYS-1 = pool keys, NKEYS = the point at
/// infinity, NKEYS+1.. = pool keys shifted out of the subgroup by a torsion point
pub type Pair = (u8, u8);

pub fn key_of(k: u8) -> PublicKey {
    let p = pool();
    if k == K_COLLIDE_VALID {
        return match &p.collide {
            Some((a, ..)) => a.clone(),
            None => p.pks[0].clone(),
        };
    }
    if k == K_COLLIDE_INVALID {
        if let Some((_, _, x, _)) = &p.collide {
            return x.clone();
        }
    }
    let k = k as usize;
    if k < NKEYS {
        p.pks[k].clone()
    } else if k == NKEYS || p.shifted_pks.is_empty() {
        p.pks[NKEYS].clone()
    } else {
        p.shifted_pks[(k - NKEYS - 1) % p.shifted_pks.len()].0.clone()
    }
}

/// the share a signer contributes for one pair: the honest signature, or, for a shifted
/// key, the honest secret key's signature over the message augmented with the shifted key
fn share_of(k: u8, m: u8) -> Signature {
    let p = pool();
    let mi = m as usize % NMSGS;
    if k == K_COLLIDE_VALID {
        return match &p.collide {
            Some((_, sk_a, ..)) => sign(sk_a, &p.msgs[mi]),
            None => p.sigs[0][mi].clone(),
        };
    }
    if k == K_COLLIDE_INVALID {
        if let Some((_, _, x, sk_s)) = &p.collide {
            let mut aug = x.to_bytes().to_vec();
            aug.extend_from_slice(&p.msgs[mi]);
            return chia_bls::sign_raw(sk_s, &aug);
        }
    }
    if (k as usize) < NKEYS {
        p.sigs[k as usize][mi].clone()
    } else if k as usize == NKEYS || p.shifted_pks.is_empty() {
        Signature::default()
    } else {
        let (spk, sk) = &p.shifted_pks[(k as usize - NKEYS - 1) % p.shifted_pks.len()];
        let mut aug = spk.to_bytes().to_vec();
        aug.extend_from_slice(&p.msgs[mi]);
        chia_bls::sign_raw(&p.sks[*sk], &aug)
    }
}

#[derive(Serialize, Deserialize, Clone, Debug, PartialEq)]
pub enum SigSpec {
    /// the aggregate of honest signatures over exactly this multiset of pairs (no infinity key)
    Agg(Vec<Pair>),
    /// a point on the curve outside the subgroup
    OffSubgroup(u8),
    /// the honest aggregate over this multiset plus a torsion point: satisfies every
    /// pairing equation the honest aggregate satisfies, but lies outside the subgroup
    AggPlusTorsion(Vec<Pair>, u8),
}

#[derive(Serialize, Deserialize, Clone, Debug, PartialEq)]
pub struct Query {
    pub pairs: Vec<Pair>,
    pub sig: SigSpec,
    /// how the pair list is handed to the cache: 0 = exact-size iterator over borrowed pairs,
    /// 1 = iterator of unknown length (size_hint (0, Some(n))), 2 = one-at-a-time generator
    /// (size_hint (0, None)), 3 = owned keys and owned messages
    #[serde(default)]
    pub feed: u8,
}

/// `BlsCache::aggregate_verify` on the query, handing the list over as `q.feed` says.
fn cache_verify(cache: &BlsCache, q: &Query) -> bool {
    let sig = q.signature();
    let pm = q.pk_msgs();
    // forms 2 and 3 also pass the signature, and form 3 the keys, through their wire encoding
    // (unchecked decoding, so that points outside the subgroup survive the round trip)
    let sig = if q.feed % 4 >= 2 { Signature::from_bytes_unchecked(&sig.to_bytes()).unwrap_or(sig) } else { sig };
    let pm: Vec<(PublicKey, Vec<u8>)> = if q.feed % 4 == 3 {
        pm.into_iter().map(|(pk, m)| (PublicKey::from_bytes_unchecked(&pk.to_bytes()).unwrap_or(pk), m)).collect()
    } else {
        pm
    };
    match q.feed % 4 {
        0 => cache.aggregate_verify(pm.iter().map(|(pk, m)| (pk, m.as_slice())), &sig),
        1 => cache.aggregate_verify(pm.iter().filter(|_| true).map(|(pk, m)| (pk, m.as_slice())), &sig),
        2 => {
            let mut i = 0usize;
            let it = std::iter::from_fn(|| {
                let r = pm.get(i).map(|(pk, m)| (pk, m.as_slice()));
                i += 1;
                r
            });
            cache.aggregate_verify(it, &sig)
        }
        _ => cache.aggregate_verify(pm.clone(), &sig),
    }
}

#[derive(Serialize, Deserialize, Clone, Debug, PartialEq)]
pub enum Op {
    Verify(Query),
    /// feed honestly computed pairings, as the mempool does after pre-validation
    Update(Vec<Pair>),
    Evict(Vec<Pair>),
    Len,
    /// snapshot the cache, then verify on the snapshot
    CloneVerify(Query),
}

#[derive(Serialize, Deserialize, Clone, Debug)]
pub struct Case {
    pub capacity: u32,
    /// executed sequentially before the threads start (prior contents)
    pub prefix: Vec<Op>,
    pub threads: Vec<Vec<Op>>,
    pub strategy: Strategy,
    /// also run every distinct query of this run through the cache-free verifiers
    pub pure_paths: bool,
}

impl Query {
    fn has_inf(&self) -> bool {
        self.pairs.iter().any(|p| invalid_key(p.0))
    }
    fn feature(&self) -> &'static str {
        if self.pairs.iter().any(|p| p.0 > INF && invalid_key(p.0)) {
            "key_outside_subgroup"
        } else if self.has_inf() {
            "infinity_key"
        } else if matches!(self.sig, SigSpec::OffSubgroup(_) | SigSpec::AggPlusTorsion(..)) {
            "offsubgroup_sig"
        } else if self.pairs.is_empty() {
            "empty_query"
        } else {
            let mut s = self.pairs.clone();
            s.sort_unstable();
            let n = s.len();
            s.dedup();
            if s.len() != n {
                "repeated_pair"
            } else {
                "plain"
            }
        }
    }
    /// ground truth by construction
    pub fn expected(&self) -> bool {
        let p = pool();
        match &self.sig {
            SigSpec::OffSubgroup(_) | SigSpec::AggPlusTorsion(..) => false,
            SigSpec::Agg(signed) => {
                if self.has_inf() {
                    return false;
                }
                let norm = |v: &Vec<Pair>| -> Vec<(u8, u8)> {
                    let mut x: Vec<(u8, u8)> = v.iter().map(|(k, m)| (*k, p.msg_class[*m as usize % NMSGS])).collect();
                    x.sort_unstable();
                    x
                };
                norm(&self.pairs) == norm(signed)
            }
        }
    }
    pub fn signature(&self) -> Signature {
        let p = pool();
        match &self.sig {
            SigSpec::OffSubgroup(i) => p.off_subgroup[*i as usize % p.off_subgroup.len().max(1)].clone(),
            SigSpec::Agg(signed) => aggregate(signed.iter().map(|(k, m)| share_of(*k, *m))),
            SigSpec::AggPlusTorsion(signed, i) => {
                let mut s = aggregate(signed.iter().map(|(k, m)| share_of(*k, *m)));
                if !p.torsion.is_empty() {
                    s.aggregate(&p.torsion[*i as usize % p.torsion.len()]);
                } else {
                    s = p.off_subgroup[0].clone();
                }
                s
            }
        }
    }
    fn pk_msgs(&self) -> Vec<(PublicKey, Vec<u8>)> {
        let p = pool();
        self.pairs
            .iter()
            .map(|(k, m)| (key_of(*k), p.msgs[*m as usize % NMSGS].clone()))
            .collect()
    }
}

#[derive(Clone, Debug, PartialEq)]
enum OpResult {
    Verdict(bool),
    Len(usize),
    Unit,
}

fn run_op(cache: &BlsCache, op: &Op) -> OpResult {
    let p = pool();
    match op {
        Op::Verify(q) => OpResult::Verdict(cache_verify(cache, q)),
        Op::CloneVerify(q) => {
            let snapshot = cache.clone();
            OpResult::Verdict(cache_verify(&snapshot, q))
        }
        Op::Update(pairs) => {
            for (k, m) in pairs {
                let m = *m as usize % NMSGS;
                if *k as usize >= NKEYS {
                    // a correct pairing for a key no verifier accepts (infinity, outside the
                    // subgroup), computed elsewhere and handed over: a later hit on it must not
                    // turn a rejection into an acceptance
                    let key = key_of(*k);
                    let mut aug = key.to_bytes().to_vec();
                    aug.extend_from_slice(&p.msgs[m]);
                    let gt = hash_to_g2(&aug).pair(&key);
                    cache.update(&aug, gt);
                    continue;
                }
                let k = *k as usize % NKEYS;
                let mut aug = p.pks[k].to_bytes().to_vec();
                aug.extend_from_slice(&p.msgs[m]);
                // every other message: the pairing arrives through its byte encoding, as it does
                // when the mempool hands pairings over from another process
                let gt = if m % 2 == 1 { GTElement::from_bytes(&p.gts[k][m].to_bytes()) } else { p.gts[k][m].clone() };
                cache.update(&aug, gt);
            }
            OpResult::Unit
        }
        Op::Evict(pairs) => {
            let v: Vec<(PublicKey, Vec<u8>)> = pairs
                .iter()
                .map(|(k, m)| (key_of(*k), p.msgs[*m as usize % NMSGS].clone()))
                .collect();
            cache.evict(v.iter().map(|(pk, m)| (pk, m.as_slice())));
            OpResult::Unit
        }
        Op::Len => {
            // is_empty() is one more lock acquisition (a scheduling point); under concurrency its
            // answer may legitimately be stale by the time len() runs, so it is only compared in
            // the sequential phases
            let _ = cache.is_empty();
            OpResult::Len(cache.len())
        }
    }
}

fn op_query(op: &Op) -> Option<&Query> {
    match op {
        Op::Verify(q) | Op::CloneVerify(q) => Some(q),
        _ => None,
    }
}

fn op_cost(op: &Op) -> usize {
    match op {
        Op::Verify(q) | Op::CloneVerify(q) => 2 * q.pairs.len() + 4,
        Op::Update(p) | Op::Evict(p) => p.len() + 3,
        Op::Len => 5,
    }
}

pub struct C15;

const DEFAULT_CAPACITY: usize = 50_000;

fn viol(sig: String, step: usize, detail: String) -> Violation {
    Violation { signature: sig, step, detail }
}

fn check_result(op: &Op, r: &OpResult, capacity: usize, path: &str) -> Option<(String, String)> {
    match (op, r) {
        (Op::Verify(q) | Op::CloneVerify(q), OpResult::Verdict(got)) => {
            let exp = q.expected();
            if *got != exp {
                let path = if matches!(op, Op::CloneVerify(_)) { format!("{path}_clone") } else { path.to_string() };
                return Some((
                    format!("verdict:{path}:expected_{exp}_got_{got}:{}", q.feature()),
                    format!("query {:?} signature {:?}: cache-assisted verification returned {got}, ground truth is {exp}", q.pairs, q.sig),
                ));
            }
            None
        }
        (Op::Len, OpResult::Len(n)) if *n > capacity => Some((
            "capacity_exceeded:len_op".to_string(),
            format!("len() = {n} with capacity {capacity}"),
        )),
        _ => None,
    }
}

impl C15 {
    fn exec(&self, case: &Case, c: &mut Counters) -> RunOutput<Case> {
        let p = pool();
        let mut d = Digest::new();
        let capacity = case.capacity.max(1) as usize;
        d.u64(capacity as u64);
        // 50 000 stands for "whatever BlsCache::default() gives", which is documented as 50 000
        let cache = if capacity == DEFAULT_CAPACITY {
            c.inc("probe.default_capacity_cache");
            Arc::new(BlsCache::default())
        } else {
            Arc::new(BlsCache::new(NonZeroUsize::new(capacity).unwrap()))
        };
        let out = |violation: Option<Violation>, d: &Digest, nontrivial: Option<u64>, resolved: Option<Case>| RunOutput {
            violation,
            digest: d.finish(),
            nontrivial,
            resolved,
        };

        // count query features
        for op in case.prefix.iter().chain(case.threads.iter().flatten()) {
            if let Some(q) = op_query(op) {
                match q.feature() {
                    "infinity_key" => c.inc("probe.query_with_infinity_key"),
                    "key_outside_subgroup" => c.inc("probe.query_with_key_outside_subgroup"),
                    "offsubgroup_sig" => c.inc("probe.query_with_offsubgroup_signature"),
                    "empty_query" => c.inc("probe.empty_query"),
                    "repeated_pair" => c.inc("probe.query_with_repeated_pair"),
                    _ => {}
                }
                if q.expected() { c.inc("queries.expected_valid") } else { c.inc("queries.expected_invalid") }
            }
        }

        // ---- prior contents: sequential prefix (one simulated thread, so that a
        // self-deadlock in the code under test is detected instead of hanging) ----
        if !case.prefix.is_empty() {
            let script = case.prefix.clone();
            let pc = cache.clone();
            let body: Box<dyn FnOnce() -> Vec<(OpResult, usize, bool)> + Send + 'static> = Box::new(move || {
                script.iter().map(|op| { let r = run_op(&pc, op); (r, pc.len(), pc.is_empty()) }).collect()
            });
            let budget = 60 + 6 * case.prefix.iter().map(op_cost).sum::<usize>();
            let sim = sched::run(vec![body], &Strategy::Explicit { decisions: vec![] }, budget, || None);
            let rs = match sim.outcome {
                Outcome::Done(mut r) => r.remove(0),
                Outcome::Deadlock(s) => return out(Some(viol("deadlock:sequential".into(), 0, s)), &d, None, None),
                Outcome::Stall(s) => return out(Some(viol("stall:sequential".into(), 0, s)), &d, None, None),
                Outcome::Invariant { step, what } => return out(Some(viol("capacity_exceeded:sequential".into(), step, what)), &d, None, None),
            };
            let rs = match rs {
                Ok(r) => r,
                Err(e) => return out(Some(viol("panic:prefix_op".into(), 0, e)), &d, None, None),
            };
            for (i, (r, n, empty)) in rs.iter().enumerate() {
                d.str(&format!("{r:?}"));
                if *empty != (*n == 0) {
                    return out(Some(viol("len_is_empty_disagree:sequential".into(), i, format!("len() = {n} but is_empty() = {empty} with no other thread running"))), &d, None, None);
                }
                if let Some((sig, detail)) = check_result(&case.prefix[i], r, capacity, "cache_sequential") {
                    return out(Some(viol(sig, i, detail)), &d, None, None);
                }
                if *n > capacity {
                    return out(Some(viol("capacity_exceeded:sequential".into(), i, format!("len {n} > capacity {capacity}"))), &d, None, None);
                }
                if *n == capacity {
                    c.inc("probe.cache_full_reached");
                }
            }
        }

        // ---- concurrent phase under the deterministic scheduler ----
        let nthreads = case.threads.len();
        let mut bodies: Vec<Box<dyn FnOnce() -> Vec<OpResult> + Send + 'static>> = vec![];
        for script in &case.threads {
            let script = script.clone();
            let cache = cache.clone();
            bodies.push(Box::new(move || {
                let mut results = vec![];
                for (i, op) in script.iter().enumerate() {
                    if i > 0 {
                        sched::yield_between_ops();
                    }
                    results.push(run_op(&cache, op));
                }
                results
            }));
        }
        let budget: usize = 60 + 4 * case.threads.iter().flatten().map(op_cost).sum::<usize>();
        let inv_cache = cache.clone();
        let mut full_seen = false;
        let sim = sched::run(bodies, &case.strategy, budget, || {
            let n = inv_cache.len();
            if n == capacity {
                full_seen = true;
            }
            if n > capacity {
                Some(format!("cache holds {n} entries, capacity is {capacity}"))
            } else {
                None
            }
        });
        if full_seen {
            c.inc("probe.cache_full_during_concurrent_phase");
        }
        c.add("steps", sim.stats.decisions);
        c.add("sched.context_switches", sim.stats.context_switches);
        c.add("sched.lock_acquisitions_seen", sim.stats.acquisitions);
        c.add("sched.invariant_checks", sim.stats.invariant_checks);
        c.add("fault.preempted_between_lookup_and_put", sim.stats.midop_preemptions);
        c.add("sched.contended_lock_events", sim.stats.contended_events);
        match &case.strategy {
            Strategy::Random { .. } => c.inc("sched.strategy_random"),
            Strategy::Pct { .. } => c.inc("fault.pct_priority_schedule (long stalls)"),
            Strategy::Explicit { .. } => c.inc("sched.strategy_explicit"),
        }
        for b in &sim.decisions {
            d.u64(u64::from(*b));
        }
        let mut resolved = case.clone();
        resolved.strategy = Strategy::Explicit { decisions: sim.decisions.clone() };
        let step = sim.decisions.len();

        let results = match sim.outcome {
            Outcome::Done(r) => r,
            Outcome::Deadlock(s) => return out(Some(viol("deadlock".into(), step, s)), &d, None, Some(resolved)),
            Outcome::Stall(s) => return out(Some(viol("stall".into(), step, s)), &d, None, Some(resolved)),
            Outcome::Invariant { step, what } => {
                return out(Some(viol("capacity_exceeded:during_concurrent_phase".into(), step, what)), &d, None, Some(resolved))
            }
        };
        for (t, r) in results.iter().enumerate() {
            match r {
                Err(e) => {
                    return out(Some(viol("panic:simulated_thread".into(), step, format!("thread {t}: {e}"))), &d, None, Some(resolved));
                }
                Ok(rs) => {
                    for (i, r) in rs.iter().enumerate() {
                        d.str(&format!("{r:?}"));
                        if let Some((sig, detail)) = check_result(&case.threads[t][i], r, capacity, "cache_concurrent") {
                            return out(Some(viol(sig, step, format!("thread {t} op {i}: {detail}"))), &d, None, Some(resolved));
                        }
                    }
                }
            }
        }
        // ---- sequential sweep over every pair this run touched: a poisoned entry
        // that no concurrent query happened to read still shows here ----
        let mut touched: BTreeMap<(u8, u8), ()> = BTreeMap::new();
        for op in case.prefix.iter().chain(case.threads.iter().flatten()) {
            let pairs: &Vec<Pair> = match op {
                Op::Verify(q) | Op::CloneVerify(q) => &q.pairs,
                Op::Update(v) | Op::Evict(v) => v,
                Op::Len => continue,
            };
            for (k, m) in pairs {
                if *k < INF {
                    touched.insert((*k % NKEYS as u8, *m % NMSGS as u8), ());
                }
            }
        }
        {
            let keys: Vec<(usize, usize)> = touched.keys().map(|(k, m)| (*k as usize, *m as usize)).collect();
            let sc = cache.clone();
            let nkeys = keys.len();
            let body: Box<dyn FnOnce() -> (usize, Option<(String, String)>, u64) + Send + 'static> = Box::new(move || {
                let p = pool();
                let n = sc.len();
                if sc.is_empty() != (n == 0) {
                    return (n, Some(("len_is_empty_disagree:sweep".to_string(), format!("len() = {n} but is_empty() disagrees with no other thread running"))), 0);
                }
                let mut count = 0u64;
                for (i, (k, m)) in keys.iter().enumerate() {
                    let (k, m) = (*k, *m);
                    let good = sc.aggregate_verify([(&p.pks[k], p.msgs[m].as_slice())], &p.sigs[k][m]);
                    count += 1;
                    if !good {
                        return (n, Some(("verdict:cache_sweep:expected_true_got_false:plain".to_string(), format!("after the run, pair ({k},{m}) with its valid signature is rejected through the cache"))), count);
                    }
                    if i % 2 == 0 {
                        let other = (k + 1) % NKEYS;
                        let bad = sc.aggregate_verify([(&p.pks[k], p.msgs[m].as_slice())], &p.sigs[other][m]);
                        count += 1;
                        if bad {
                            return (n, Some(("verdict:cache_sweep:expected_false_got_true:plain".to_string(), format!("after the run, pair ({k},{m}) verifies with another key's signature through the cache"))), count);
                        }
                    }
                }
                (n, None, count)
            });
            let sweep = sched::run(vec![body], &Strategy::Explicit { decisions: vec![] }, 60 + 12 * nkeys, || None);
            match sweep.outcome {
                Outcome::Done(mut r) => match r.remove(0) {
                    Ok((n, bad, count)) => {
                        c.add("sweep.verifications", count);
                        if n > capacity {
                            return out(Some(viol("capacity_exceeded:after_threads".into(), step, format!("len {n} > capacity {capacity}"))), &d, None, Some(resolved));
                        }
                        if let Some((sig, detail)) = bad {
                            return out(Some(viol(sig, step, detail)), &d, None, Some(resolved));
                        }
                    }
                    Err(e) => return out(Some(viol("panic:sweep".into(), step, e)), &d, None, Some(resolved)),
                },
                Outcome::Deadlock(s) => return out(Some(viol("deadlock:sweep".into(), step, s)), &d, None, Some(resolved)),
                Outcome::Stall(s) => return out(Some(viol("stall:sweep".into(), step, s)), &d, None, Some(resolved)),
                Outcome::Invariant { step, what } => return out(Some(viol("capacity_exceeded:sweep".into(), step, what)), &d, None, Some(resolved)),
            }
        }

        // ---- the cache-free verifiers on every distinct query of this run ----
        if case.pure_paths {
            let mut seen: Vec<&Query> = vec![];
            for op in case.prefix.iter().chain(case.threads.iter().flatten()) {
                if let Some(q) = op_query(op) {
                    if !seen.contains(&q) {
                        seen.push(q);
                    }
                }
            }
            for q in seen {
                let exp = q.expected();
                let sig = q.signature();
                let pm = q.pk_msgs();
                let mut mism = |path: &str, got: bool| -> Option<Violation> {
                    if got != exp {
                        Some(viol(
                            format!("verdict:{path}:expected_{exp}_got_{got}:{}", q.feature()),
                            step,
                            format!("query {:?} signature {:?}: {path} returned {got}, ground truth is {exp}", q.pairs, q.sig),
                        ))
                    } else {
                        None
                    }
                };
                c.inc("pure_path_queries");
                // the same hand-over forms as for the cache
                let got = match q.feed % 4 {
                    0 => aggregate_verify(&sig, pm.iter().map(|(pk, m)| (pk, m.as_slice()))),
                    1 | 2 => aggregate_verify(&sig, pm.iter().filter(|_| true).map(|(pk, m)| (pk, m.as_slice()))),
                    _ => aggregate_verify(&sig, pm.clone()),
                };
                if let Some(v) = mism("aggregate_verify", got) {
                    return out(Some(v), &d, None, Some(resolved));
                }
                if pm.len() == 1 {
                    let got = verify(&sig, &pm[0].0, &pm[0].1);
                    if let Some(v) = mism("verify", got) {
                        return out(Some(v), &d, None, Some(resolved));
                    }
                }
                if !q.has_inf() {
                    // verification from precomputed pairings is only required to agree without infinity keys
                    let gts: Vec<&GTElement> = q.pairs.iter().map(|(k, m)| &p.gts[*k as usize % NKEYS][*m as usize % NMSGS]).collect();
                    let got = if q.feed % 2 == 1 { aggregate_verify_gt(&sig, gts.iter().copied().filter(|_| true)) } else { aggregate_verify_gt(&sig, gts) };
                    if let Some(v) = mism("aggregate_verify_gt", got) {
                        return out(Some(v), &d, None, Some(resolved));
                    }
                    let mut neg_g1 = PublicKey::generator();
                    neg_g1.negate();
                    let mut data: Vec<(PublicKey, Signature)> = pm
                        .iter()
                        .map(|(pk, m)| {
                            let mut aug = pk.to_bytes().to_vec();
                            aug.extend_from_slice(m);
                            (pk.clone(), hash_to_g2(&aug))
                        })
                        .collect();
                    data.push((neg_g1, sig.clone()));
                    let got = aggregate_pairing(data.iter().map(|(a, b)| (a, b)));
                    if let Some(v) = mism("aggregate_pairing", got) {
                        return out(Some(v), &d, None, Some(resolved));
                    }
                }
            }
        }

        let nontrivial = if sim.stats.threads_with_acquisitions >= 2 && sim.stats.midop_preemptions >= 1 {
            let mut s = Digest::new();
            s.u64(nthreads as u64);
            for b in &sim.decisions {
                s.u64(u64::from(*b));
            }
            Some(s.finish())
        } else {
            None
        };
        out(None, &d, nontrivial, Some(resolved))
    }
}

fn gen_pairs(rng: &mut Rng, keyspace: usize, n: usize, allow_inf: bool) -> Vec<Pair> {
    let mut v: Vec<Pair> = vec![];
    while v.len() < n {
        let k = if allow_inf && rng.chance(1, 12) {
            if rng.chance(1, 3) { INF + 1 + rng.below(4) as u8 } else { INF }
        } else {
            rng.usize_below(keyspace) as u8
        };
        v.push((k, rng.usize_below(NMSGS) as u8));
        // a key shifted by +T often comes with its partner shifted by -T
        if k > INF && v.len() < n && rng.chance(1, 2) {
            let partner = INF + 1 + (((k - INF - 1) as usize) ^ 1) as u8;
            v.push((partner, rng.usize_below(NMSGS) as u8));
        }
    }
    v
}

pub fn gen_query(rng: &mut Rng, keyspace: usize) -> Query {
    let n = match rng.below(40) {
        0..=3 => 0,
        4..=19 => 1,
        20..=31 => 2,
        32..=35 => 3,
        36..=38 => 4,
        _ => rng.range(5, 20) as usize, // long pair lists (rare: each pair costs a pairing)
    };
    let mut pairs = gen_pairs(rng, keyspace, n, true);
    if n >= 2 && rng.chance(1, 6) {
        pairs[1] = pairs[0]; // repeated pair
        if n >= 3 && rng.chance(1, 2) {
            pairs[2] = pairs[0]; // three times
        }
    }
    // runs of adjacent pairs under one key with (mostly) different messages, as a spend with
    // several conditions for one key produces them; the key may be an invalid one
    if n >= 2 && rng.chance(1, 7) {
        let start = rng.usize_below(n - 1);
        let len = 2 + rng.usize_below((n - start - 1).min(3));
        if rng.chance(1, 4) {
            pairs[start].0 = INF;
        }
        for i in start + 1..(start + len).min(n) {
            pairs[i].0 = pairs[start].0;
        }
    }
    // one query in 40: the valid key and, right after it, the key outside the subgroup that has
    // the same fingerprint
    if rng.chance(1, 40) {
        let pos = rng.usize_below(pairs.len() + 1);
        pairs.insert(pos, (K_COLLIDE_INVALID, rng.usize_below(NMSGS) as u8));
        pairs.insert(pos, (K_COLLIDE_VALID, rng.usize_below(NMSGS) as u8));
    }
    // everything a signer can contribute to: all pairs except those with the infinity key
    let honest: Vec<Pair> = pairs.iter().copied().filter(|p| p.0 != INF).collect();
    let sig = match rng.below(17) {
        0..=8 => SigSpec::Agg(honest),
        9 => {
            // one pair missing
            let mut s = honest;
            if !s.is_empty() {
                let i = rng.usize_below(s.len());
                s.remove(i);
            }
            SigSpec::Agg(s)
        }
        10 => {
            let mut s = honest;
            s.push((rng.usize_below(keyspace) as u8, rng.usize_below(NMSGS) as u8));
            SigSpec::Agg(s)
        }
        11 => {
            // message swapped
            let mut s = honest;
            if !s.is_empty() {
                let i = rng.usize_below(s.len());
                s[i].1 = (s[i].1 + 1 + rng.below(3) as u8) % NMSGS as u8;
            }
            SigSpec::Agg(s)
        }
        12 => {
            // key swapped
            let mut s = honest;
            if !s.is_empty() {
                let i = rng.usize_below(s.len());
                s[i].0 = (s[i].0 + 1) % NKEYS as u8;
            }
            SigSpec::Agg(s)
        }
        13 => SigSpec::Agg(vec![]), // identity
        14 => SigSpec::OffSubgroup(rng.below(3) as u8),
        15 => SigSpec::AggPlusTorsion(honest, rng.below(3) as u8),
        _ => SigSpec::Agg(honest),
    };
    let feed = if rng.chance(1, 2) { 0 } else { rng.range(1, 3) as u8 };
    Query { pairs, sig, feed }
}

fn gen_op(rng: &mut Rng, keyspace: usize, w: &[u64; 5]) -> Op {
    let total: u64 = w.iter().sum();
    let mut r = rng.below(total);
    let mut k = 0;
    while r >= w[k] {
        r -= w[k];
        k += 1;
    }
    match k {
        0 => Op::Verify(gen_query(rng, keyspace)),
        1 => {
            let n = rng.range(1, 3) as usize;
            Op::Update({ let inv = rng.chance(1, 5); gen_pairs(rng, keyspace, n, inv) })
        }
        2 => {
            // mostly short; sometimes a long list, which repeats pairs on the small key spaces
            let n = if rng.chance(1, 5) { rng.range(4, 9) as usize } else { rng.range(1, 3) as usize };
            Op::Evict(gen_pairs(rng, keyspace, n, true))
        }
        3 => Op::Len,
        _ => Op::CloneVerify(gen_query(rng, keyspace)),
    }
}

pub fn gen_strategy(rng: &mut Rng, est_steps: u32) -> Strategy {
    if rng.chance(1, 2) {
        Strategy::Random { seed: rng.next_u64() }
    } else {
        Strategy::Pct { seed: rng.next_u64(), changes: rng.range(1, 3) as u8, horizon: est_steps.max(4) }
    }
}

/// Schedule-level shrinking shared by the schedsim engines.
pub fn shrink_decisions(d: &[u8]) -> Vec<Vec<u8>> {
    let mut out = vec![];
    // run-to-completion orders first (fewest context switches)
    let mut ids: Vec<u8> = d.to_vec();
    ids.sort_unstable();
    ids.dedup();
    if ids.len() > 1 {
        let mut sorted = d.to_vec();
        sorted.sort_unstable();
        if sorted != d {
            out.push(sorted.clone());
        }
        sorted.reverse();
        if sorted != d {
            out.push(sorted);
        }
    }
    // remove one context switch at a time by extending the previous thread's segment
    for i in 1..d.len() {
        if d[i] != d[i - 1] {
            let mut c = d.to_vec();
            c[i] = d[i - 1];
            out.push(c);
        }
    }
    out
}

fn remap_after_thread_removal(strategy: &Strategy, removed: usize) -> Strategy {
    match strategy {
        Strategy::Explicit { decisions } => Strategy::Explicit {
            decisions: decisions
                .iter()
                .filter(|t| **t as usize != removed)
                .map(|t| if *t as usize > removed { t - 1 } else { *t })
                .collect(),
        },
        s => s.clone(),
    }
}

impl Engine for C15 {
    type Case = Case;
    fn id(&self) -> &'static str {
        "C15"
    }
    fn default_runs(&self, tier: Tier) -> u64 {
        match tier {
            Tier::Quick => 6_000,
            Tier::Thorough => 300_000,
        }
    }
    fn init(&self) {
        sched::install_hook();
        let _ = pool();
    }
    fn info(&self) -> EngineInfo {
        EngineInfo {
            engine: "schedsim",
            rule: "2-4 simulated threads (real OS threads parked and released one at a time at every acquisition of BlsCache's mutex and between operations; a seeded uniform or PCT-style scheduler decides who runs) execute scripts of verify / update / evict / len / clone-then-verify on one shared real BlsCache of capacity 1-64 after a seeded sequential prefix; signatures are built as aggregates over a known multiset, so every verdict has a ground truth by construction. A run is non-trivial if at least two threads took the lock and at least one thread was preempted between two lock acquisitions of the same operation (between its lookup and its put); distinct_nontrivial = distinct recorded schedules (decision sequences) among those runs",
            components_real: vec![
                "chia_bls::BlsCache (new, aggregate_verify, update, evict, len, clone) with its Mutex swapped for the verif-hooks wrapper",
                "chia_bls::{aggregate_verify, verify, aggregate_verify_gt, aggregate_pairing, hash_to_g2, Signature::pair, sign, aggregate} (blst underneath)",
            ],
            components_stub: vec![
                "scheduler (harness) and the hooked Mutex wrapper (chia_bls::verif_hooks)",
                "workload generator: key/message/signature pool, query and script generator",
            ],
            assumptions: vec![
                "blst is trusted; ground truth = the multiset of (key, message) the signature was aggregated over (accidental collisions have negligible probability)",
                "interleavings are explored at lock-acquisition granularity",
                "public keys outside the subgroup are not generated",
                "aggregate_verify_gt / aggregate_pairing are compared only for queries without an infinity key, as the property states",
                "sampling: a clean batch is evidence, not proof",
            ],
            fault_kinds: vec![
                "preempted_between_lookup_and_put",
                "pct_priority_schedule (long stalls)",
                "capacity_pressure_runs",
                "explicit_evictions",
                "snapshot_clone_mid_run",
                "invalid_signature_queries",
            ],
        }
    }

    fn generate(&self, rng: &mut Rng, tier: Tier) -> Case {
        let deep = tier == Tier::Thorough && rng.chance(1, 4);
        let capacity = if deep { *rng.pick(&[1u32, 2, 3, 4, 6, 8, 16]) } else if rng.chance(1, 40) { DEFAULT_CAPACITY as u32 } else { *rng.pick(&[1u32, 1, 2, 2, 3, 5, 7, 64, 300]) };
        let keyspace = *rng.pick(&[2usize, 3, NKEYS]);
        let nthreads = if deep && rng.chance(1, 8) { rng.range(7, 8) as usize } else if deep { rng.range(3, 6) as usize } else { rng.range(2, 4) as usize };
        // swarm: per-run op weights (verify, update, evict, len, clone-verify)
        let mut w = [4u64, 0, 0, 0, 0];
        for x in w.iter_mut().skip(1) {
            *x = *rng.pick(&[0u64, 0, 1, 2]);
        }
        let nprefix = match rng.below(3) {
            0 => 0,
            1 => rng.range(1, 2) as usize,
            _ => rng.range(2, 5) as usize,
        };
        let prefix: Vec<Op> = (0..nprefix)
            .map(|_| if rng.chance(1, 2) { Op::Update({ let inv = rng.chance(1, 6); gen_pairs(rng, keyspace, 2, inv) }) } else { gen_op(rng, keyspace, &w) })
            .collect();
        let mut threads = vec![];
        for _ in 0..nthreads {
            let nops = if deep { rng.range(2, 5) as usize } else { rng.range(1, 3) as usize };
            threads.push((0..nops).map(|_| gen_op(rng, keyspace, &w)).collect::<Vec<Op>>());
        }
        let mut prefix = prefix;
        // a pairing of a key no verifier accepts that was handed to update() is looked up soon
        // afterwards: a query containing exactly those pairs (and sometimes an honest one),
        // signed by everybody who can sign
        {
            let mut follow: Vec<Op> = vec![];
            for op in &prefix {
                if let Op::Update(v) = op {
                    if v.iter().any(|p| p.0 as usize >= NKEYS) {
                        let mut pairs = v.clone();
                        if rng.chance(1, 2) {
                            pairs.extend(gen_pairs(rng, keyspace, 1, false));
                        }
                        let honest: Vec<Pair> = pairs.iter().copied().filter(|p| p.0 != INF).collect();
                        follow.push(Op::Verify(Query { pairs, sig: SigSpec::Agg(honest), feed: 0 }));
                    }
                }
            }
            for f in follow {
                if rng.chance(1, 2) || threads.is_empty() {
                    prefix.push(f);
                } else {
                    threads[0].insert(0, f);
                }
            }
        }
        // rarely: one long query (more pairs than any batching threshold one might
        // plausibly introduce) verified several times in the run, so that later
        // verifications find most of it cached
        if rng.chance(1, 50) {
            // mostly 33-70 pairs; one in three of these runs crosses 256 / 512 pairs
            let n = if rng.chance(1, 3) { *rng.pick(&[257usize, 258, 300, 513]) } else { rng.range(33, 70) as usize };
            let mut pairs = gen_pairs(rng, NKEYS, n, false);
            // half of them carry one or two invalid keys (infinity, outside the subgroup) anywhere
            // in the list; the holder of a shifted key signs, nobody signs for infinity
            if rng.chance(1, 2) {
                for _ in 0..rng.range(1, 2) {
                    let pos = rng.usize_below(n);
                    pairs[pos].0 = if rng.chance(1, 2) { INF } else { INF + 1 + rng.below(4) as u8 };
                }
            }
            let mut signed: Vec<Pair> = pairs.iter().copied().filter(|p| p.0 != INF).collect();
            match rng.below(4) {
                0 => {
                    let i = rng.usize_below(signed.len());
                    signed.remove(i);
                }
                1 => {
                    let i = rng.usize_below(signed.len());
                    signed[i].0 = (signed[i].0 + 1) % NKEYS as u8;
                }
                _ => {}
            }
            let q = Query { pairs, sig: SigSpec::Agg(signed), feed: rng.below(4) as u8 };
            prefix.push(Op::Verify(q.clone()));
            let t = rng.usize_below(threads.len());
            threads[t].insert(0, Op::Verify(q.clone()));
            if rng.chance(1, 2) {
                let t2 = rng.usize_below(threads.len());
                threads[t2].push(Op::Verify(q));
            }
        }
        let est: usize = threads.iter().flatten().map(op_cost).sum();
        let strategy = gen_strategy(rng, est as u32);
        Case { capacity, prefix, threads, strategy, pure_paths: rng.chance(1, 4) }
    }

    fn execute(&self, case: &Case, _ctx: &WorkerCtx, counters: &mut Counters) -> RunOutput<Case> {
        if (case.capacity as usize) < 4 {
            counters.inc("fault.capacity_pressure_runs");
        }
        for op in case.threads.iter().flatten() {
            match op {
                Op::Evict(_) => counters.inc("fault.explicit_evictions"),
                Op::CloneVerify(_) => counters.inc("fault.snapshot_clone_mid_run"),
                Op::Verify(q) if !q.expected() => counters.inc("fault.invalid_signature_queries"),
                _ => {}
            }
        }
        self.exec(case, counters)
    }

    fn shrink(&self, case: &Case) -> Vec<Case> {
        let mut out = vec![];
        // drop a thread
        if case.threads.len() > 1 {
            for t in 0..case.threads.len() {
                let mut c = case.clone();
                c.threads.remove(t);
                c.strategy = remap_after_thread_removal(&case.strategy, t);
                out.push(c);
            }
        }
        // drop the prefix / parts of it
        for p in removal_candidates(&case.prefix) {
            let mut c = case.clone();
            c.prefix = p;
            out.push(c);
        }
        // drop operations
        for t in 0..case.threads.len() {
            if case.threads[t].len() > 1 {
                for i in 0..case.threads[t].len() {
                    let mut c = case.clone();
                    c.threads[t].remove(i);
                    out.push(c);
                }
            }
        }
        // fewer context switches
        if let Strategy::Explicit { decisions } = &case.strategy {
            for dcs in shrink_decisions(decisions) {
                let mut c = case.clone();
                c.strategy = Strategy::Explicit { decisions: dcs };
                out.push(c);
            }
        }
        // smaller queries
        let shrink_q = |q: &Query| -> Vec<Query> {
            let mut v = vec![];
            for i in 0..q.pairs.len() {
                let mut nq = q.clone();
                let removed = nq.pairs.remove(i);
                if let SigSpec::Agg(s) | SigSpec::AggPlusTorsion(s, _) = &mut nq.sig {
                    if let Some(pos) = s.iter().position(|x| *x == removed) {
                        s.remove(pos);
                    }
                }
                v.push(nq);
            }
            v
        };
        let mut ops_ref: Vec<(Option<usize>, usize)> = vec![];
        for i in 0..case.prefix.len() {
            ops_ref.push((None, i));
        }
        for t in 0..case.threads.len() {
            for i in 0..case.threads[t].len() {
                ops_ref.push((Some(t), i));
            }
        }
        for (t, i) in ops_ref {
            let op = match t {
                None => &case.prefix[i],
                Some(t) => &case.threads[t][i],
            };
            let alts: Vec<Op> = match op {
                Op::Verify(q) => shrink_q(q).into_iter().map(Op::Verify).collect(),
                Op::CloneVerify(q) => {
                    let mut a: Vec<Op> = vec![Op::Verify(q.clone())];
                    a.extend(shrink_q(q).into_iter().map(Op::CloneVerify));
                    a
                }
                Op::Update(p) if p.len() > 1 => (0..p.len()).map(|j| { let mut x = p.clone(); x.remove(j); Op::Update(x) }).collect(),
                Op::Evict(p) if p.len() > 1 => (0..p.len()).map(|j| { let mut x = p.clone(); x.remove(j); Op::Evict(x) }).collect(),
                _ => vec![],
            };
            for a in alts {
                let mut c = case.clone();
                match t {
                    None => c.prefix[i] = a,
                    Some(t) => c.threads[t][i] = a,
                }
                out.push(c);
            }
        }
        if case.pure_paths {
            let mut c = case.clone();
            c.pure_paths = false;
            out.push(c);
        }
        out
    }

    fn extra_coverage(&self, c: &Counters) -> Value {
        let g = |k: &str| c.map.get(k).copied().unwrap_or(0);
        json!({
            "distinct_interleavings": "distinct_nontrivial counts distinct recorded schedules among runs with a preemption between a lookup and its put",
            "scheduling_decisions": g("steps"),
            "context_switches": g("sched.context_switches"),
            "lock_sites_seen": g("sched.lock_acquisitions_seen"),
            "capacity_invariant_checks": g("sched.invariant_checks"),
            "simulated_time": "n/a (no clock in this component); simulated_steps = scheduling decisions",
        })
    }
}
