#!/usr/bin/env python3
"""Regenerates /verif/MANIFEST.json from the tables below (run after changing them)."""
import json, subprocess, os

HERE = os.path.dirname(os.path.abspath(__file__))

def repo_commits(grep):
    out = subprocess.run(["git", "-C", "/repo", "log", "--format=%H", "--grep", grep],
                         capture_output=True, text=True).stdout.split()
    return out

NOT_APPLICABLE = {
    "C01": "parse_spends is a pure function of (CLVM tree, flags): no schedule, clock, I/O or failing environment interaction exists for a simulator to control; seeded input generation would be property-based testing, not simulation.",
    "C02": "conservation and coin-ID facts about one accepted bundle are a pure function of that bundle; nothing is carried between calls and nothing can be faulted.",
    "C04": "cost and limit exactness are a pure function of (program, flags, limit); 'limit-1' is an argument, not a fault or a schedule.",
    "C06": "monotonicity in flags and permutation invariance are relations between runs of a pure function (metamorphic input transformation); no interleaving, clock or fault is involved.",
    "C07": "legacy vs native generator execution are two pure functions of the same arguments; disagreement is input-triggered, not schedule- or fault-triggered.",
    "C08": "mempool path vs block path are two pure functions of one bundle; no state survives between the calls.",
    "C09": "the trusted fast-path helpers are pure functions of the generator bytes.",
    "C11": "integer encoders/decoders are pure functions of one integer.",
    "C12": "Merkle-set roots and proofs are pure functions of a set; proof soundness needs adversarial proof search, which injected faults never reach (any flipped bit changes the root).",
    "C13": "Streamable encode/decode/hash operate on a complete in-memory slice / Vec; there is no reader/writer seam, incremental state or retry to fault.",
    "C14": "decoder totality over arbitrary bytes is mutation fuzzing of a pure function; truncating or flipping an in-memory slice has no 'instant' a simulator could choose.",
    "C16": "key/signature codecs and derivation laws are pure algebra.",
    "C17": "TreeCache is a single-owner &mut memo with no failing operation, rollback, persistence or sharing; its history dependence is a pure function of the call sequence.",
    "C19": "fast-forward rewrite and dedup fingerprint are pure functions of a spend / a condition list.",
    "C20": "JSON-dict conversions are pure functions of a value (and live behind the Python binding).",
}

CHECKS = {
    "C03": dict(
        engine="clocksim",
        technique="deterministic simulation: discrete-event chain clock whose events are the lock thresholds (+-1), extremes, independent height/time advance and reorgs moving coin confirmation points; the real parse path runs once and the real check_time_locks at every simulated chain state, compared with an independent per-assertion evaluator; a constructed witness state decides 'rejected as impossible only if unsatisfiable'",
        text="Seeded search over bundles x clock/reorg event sequences. Every visited chain state compares (parse accepted AND check_time_locks Ok) with an independent per-assertion evaluator (saturating sums, ephemeral rule); a satisfying witness state is constructed and visited whenever one exists, so a satisfiable bundle rejected at parse time is reported; rarely the spends sit at positions around 2^8 / 2^16 of a long bundle; one bundle in eight is also run as a quoted generator (run_block_generator2) and as a spend bundle (run_spendbundle) and those conditions are checked at every state too. Exploration level: sampling (8 M bundles / ~180 M chain states quick, 200 M bundles thorough). Weakest fit of the claimed properties for this technique: the code under test is two pure functions; what the simulator contributes is the clock, the coin-store history and jump-to-next-threshold exploration.",
        design_ref="DESIGN.md section 3, C03",
        note="Trusted: the harness's reference evaluator (written from the arithmetic definitions) and its integer classification. Only nowrap=true. Chain states are arbitrary, not only reachable ones. Cost limit ample; signatures not validated.",
    ),
    "C05": dict(
        engine="schedsim",
        technique="deterministic simulation: block validators (parse_spends, run_block_generator2), the mempool pre-validator (validate_clvm_and_signature, feeding its pairings back) and an evictor run as simulated threads on one shared BlsCache under a seeded scheduler at lock granularity; a wallet signs with the real helper, a channel injects one tampering per bundle; verdicts are compared with a ground truth by construction computed from an independent statement of the 8 message rules; per-run random domain constants",
        text="Seeded search over (bundles x tamperings x cache capacity / warm-up x parties x schedules). Every path's verdict, under every explored interleaving and cache history, in a final sweep and without a cache, must equal the verdict fixed by which (key, prescribed message) multiset was signed; the helper's messages and the pre-validator's cache keys must equal the reference; the block paths receive the bundle plain, back-referenced (identical conditions decode to one node) or with INTERNED_GENERATOR; a further party pre-validates with the signature check deferred (DONT_VALIDATE_SIGNATURE; parse_spends, run_block_generator(2), run_spendbundle, get_conditions_from_spendbundle) on the shared cache, which must not change anybody's verdict and must itself reject exactly what is rejected whatever the signature says (banned AGG_SIG_UNSAFE message, infinity / malformed key, same coin twice); every bundle is validated again on the thread that validated it before (resubmission). Exploration level (5 k runs quick, 200 k thorough). Narrowed claim: the schedule search decides cache and path independence; the per-opcode message rule is checked by the oracle the histories need, i.e. by seeded inputs, not by the schedules.",
        design_ref="DESIGN.md section 3, C05",
        note="Trusted: blst, the scheduler/hook, the harness's rule table (written from the property's restatement of CHIP-11, sharing no code with conditions.rs or the helper). Only accept/reject is compared. Expected verdicts are computed from the delivered bundle, so harmless tampering is expected to pass.",
    ),
    "C10": dict(
        engine="histsim",
        technique="deterministic simulation, reduced sequential form: seeded add/finalize histories with injected failing attempts (rejected by the pre-check, rejected after serialisation with declared costs landing on / around the remaining budget, failing mid-batch on truncated or bit-flipped bytes), two builder replicas (full history vs accepted-only) compared byte for byte, generator decoded and validated by the real run_block_generator2",
        text="Seeded search over attempt histories x failure kinds x cost landing points for both builders under small per-run block limits. After finalize: replicas identical, generator = exactly the accepted spends, signature = aggregate of the accepted signatures, cost <= limit, cost = consensus cost and validates with max_cost = cost when declared costs were truthful, cost() reads after the last accepted attempt >= final cost, a rejected attempt leaves cost() unchanged, no panic; one history in twelve consists only of spends that share no atom with anything else; spends are occasionally repeated verbatim and must be emitted as often as accepted; declared costs reach 2^64-1. Exploration level (100 k histories quick, 5 M thorough). Reduced form: no scheduler and no clock, the fault is 'this attempt fails in this way'.",
        design_ref="DESIGN.md section 3, C10",
        note="Trusted: run_block_generator2 and run_spendbundle as validator / cost oracle, clvmr decoding, the harness's accepted-attempt model. Equality with the consensus cost only when every accepted declared cost was truthful. Two known findings on the unchanged tree (known_findings.txt): compressed builder cost() with zero accepted attempts; back-reference bytes after a rejected attempt.",
    ),
    "C15": dict(
        engine="schedsim",
        technique="deterministic simulation: real threads parked and released one at a time at every acquisition of BlsCache's (hooked) mutex by a seeded uniform / PCT scheduler; capacity pressure, evictions, snapshots and invalid signatures injected; ground truth by construction; capacity invariant at every scheduling step; deadlock and bounded-liveness detection; recorded schedules replayed and minimised",
        text="Seeded search over (cache capacity x prior contents x 2-4 thread scripts x schedules at lock granularity). Every cache-assisted verdict, on the shared cache, on snapshots and in a final sequential sweep, must equal the verdict fixed by how the signature was constructed; len <= capacity is checked at every scheduling step; the cache-free verifiers (aggregate_verify, verify, aggregate_verify_gt, aggregate_pairing) are checked against the same ground truth; the pair list is handed over in four forms (exact-size, unknown-size and one-at-a-time iterators, owned values); queries reach 513 pairs; the key pool contains a valid and an off-subgroup key with equal 32-bit fingerprints. Exploration level: about 6 k schedules quick, 300 k thorough; a clean batch is evidence, not proof.",
        design_ref="DESIGN.md section 3, C15",
        note="Trusted: blst, the scheduler and the hooked Mutex wrapper (chia_bls::verif_hooks). Interleavings are explored at lock-acquisition granularity (evidence reports lock_sites_seen). Public keys outside the subgroup are generated by adding a G1 torsion point to honest keys (the holder signs over the shifted key's bytes). Signatures outside the subgroup that still satisfy the pairing equation cannot be constructed with the available API, so the subgroup test inside aggregate_verify_gt is only exercised with points that fail the equation anyway.",
    ),
    "C18": dict(
        engine="histsim",
        technique="deterministic simulation: seeded operation histories with injected failing operations and restarts (volatile index dropped, only blob bytes survive, in memory and through the real file path), stepped against a plain-map reference model with independent root/proof recomputation; minimised replay files",
        text="Seeded search over operation histories x restart points x failing operations on the real MerkleBlob against an executable reference model (plain map + independent SHA-256 tree recomputation). Every step checks outcome class, failure atomicity (byte-identical blob), content, check_integrity; every restart checks reload equivalence; after calculate_lazy_hashes the root and every key's proof are recomputed independently; on trees of up to 64 leaves every read-only view (tree walk from the root, key index, leaf lookup, hash->index maps, lineages) is compared with the model after every step, and clones are checked for equivalence and independence. Leaf hashes include values equal to the internal-node hash of two live leaves; chains reach 8 200 levels. Exploration level: it samples (about 0.5 M histories quick, 3 M thorough with one in five a long history on a large or degenerate tree); a clean batch is evidence, not proof.",
        design_ref="DESIGN.md section 3, C18",
        note="Trusted: the harness's reference model and the sha2 crate. Restarts are clean (bytes as last written); damaged files are out of scope because the property promises nothing about them. Hashes are only examined after calculate_lazy_hashes.",
    ),
}

def main():
    hook_commits = repo_commits("verif-hooks")
    m = {
        "version": 1,
        "setup_cmd": "./check --build",
        "hooks": {
            "guard": "cargo feature `verif-hooks` of crate chia-bls (off by default; enabled by nothing inside the /repo workspace)",
            "enable": "the simulator crate /verif/sim depends on /repo/crates/chia-bls by path with features=[\"verif-hooks\"]; cargo feature unification switches it on for chia-consensus's chia-bls too. ./check <ID> <tier> rebuilds from /repo's working tree.",
            "baseline_off_cmd": "cd /repo && cargo nextest run --workspace --no-fail-fast --tool-config-file pb:/w/lib/nextest.toml --profile pb --test-threads 8 --offline || cargo test --workspace --no-fail-fast --offline",
            "source_commits": hook_commits,
            "add_only": True,
        },
        "engines": [
            {"name": "histsim", "path": "sim/src/c18.rs, sim/src/c10.rs", "serves_properties": ["C18", "C10"],
             "kind_free_text": "single-threaded history simulator: seeded operation histories including fault operations (restart, failing attempt) executed on the real object and on an executable reference model in lock step"},
            {"name": "schedsim", "path": "sim/src/sched.rs, sim/src/c15.rs, sim/src/c05.rs", "serves_properties": ["C15", "C05"],
             "kind_free_text": "deterministic thread scheduler: real OS threads parked and released one at a time at the hooked Mutex of BlsCache; a seeded PRNG (uniform or PCT-style priorities) decides who runs; schedules are recorded, replayed and minimised"},
            {"name": "clocksim", "path": "sim/src/c03.rs", "serves_properties": ["C03"],
             "kind_free_text": "discrete-event chain clock: every lock threshold is a timer; the clock (height, timestamp, coin births) jumps from event to event"},
        ],
        "checks": [],
        "not_applicable": [],
        "notes": "Technique family: deterministic simulation with fault injection. One binary (sim/ -> target/release/vsim), one PRNG stream per run derived from VERIF_SEED. Exit 0 held / 1 VIOLATION / 2 harness error. Known findings: known_findings.txt; regression replays: regress/<ID>/. See DESIGN.md.",
    }
    for pid in sorted(CHECKS):
        c = CHECKS[pid]
        m["checks"].append({
            "property_id": pid,
            "quick_cmd": f"./check {pid} quick",
            "thorough_cmd": f"./check {pid} thorough",
            "evidence_file": f"evidence/{pid}.json",
            "replay_cmd_template": f"./check {pid} --replay {{path}}",
            "engine": c["engine"],
            "level_claimed": {"category": "exploration", "text": c["text"], "design_ref": c["design_ref"]},
            "level_note": c["note"],
            "technique": c["technique"],
        })
    pending = {}
    for pid in sorted(set(NOT_APPLICABLE) | set(pending)):
        if pid in CHECKS:
            continue
        reason = NOT_APPLICABLE.get(pid) or pending[pid]
        m["not_applicable"].append({"property_id": pid, "reason": reason})
    with open(os.path.join(HERE, "MANIFEST.json"), "w") as f:
        json.dump(m, f, indent=1)
        f.write("\n")
    try:
        import jsonschema
        jsonschema.validate(m, json.load(open("/root/.vp/MANIFEST.schema.json")))
        print("MANIFEST.json valid;", len(m["checks"]), "checks,", len(m["not_applicable"]), "not applicable")
    except ImportError:
        print("MANIFEST.json written (jsonschema not importable here; run with python3-vt to validate)")

if __name__ == "__main__":
    main()
